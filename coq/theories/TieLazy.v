From InfOCF Require Import Core Form PyLib TieLib.
From Coq Require Import ZArith.
(* The lazily filled ranking table shared by the rank_world methods of the ranking objects: `if force or ranks[w] is None:
   ranks[w] = compute(w)`, then the stored value is returned.  For ANY compute step that returns f(w): whatever part of the table
   is filled in (each entry absent or f of its world) and whether or not recomputation is forced, the answer is f(w), the table
   keeps its worlds, stays correct, holds f(w) for the asked world afterwards and is unchanged elsewhere. *)
Definition lazy_rank_world (comp:ctl Z unit unit) (w:world) (force:bool) (rk:wdict (option Z)) : ctl (Z * wdict (option Z)) unit unit :=
  cbind (if force then Next true else cbind (wdict_get rk w) (fun t1 => Next (is_none t1))) (fun t2 =>
  cbind (if t2 then (call comp (fun r3 => let rk := wdict_set rk w (Some r3) in Next rk)) else (Next rk)) (fun rk =>
  cbind (wdict_get rk w) (fun t4 => let v_rank := t4 in
  cbind (py_assert (negb (is_none v_rank))) (fun _ =>
  cbind (py_unopt v_rank) (fun t5 => Return (t5, rk)))))).

Lemma lz_find_in {V} (d:wdict V) w : In w (map fst d) -> exists v, wdict_find d w = Some v /\ In (w, v) d.
Proof. induction d as [|[w' v'] d IH]; intros Hin; [destruct Hin|]. cbn [wdict_find]. destruct (beq w' w) eqn:E.
  - apply beq_eq in E. subst. exists v'. split; [reflexivity|left; reflexivity].
  - destruct Hin as [Hin|Hin]; [cbn in Hin; subst; rewrite (proj2 (beq_eq w w) eq_refl) in E; discriminate|].
    destruct (IH Hin) as [v [Hf Hi]]. exists v. split; [exact Hf|right; exact Hi]. Qed.
Lemma lz_set_find_same {V} (d:wdict V) w v : wdict_find (wdict_set d w v) w = Some v.
Proof. induction d as [|[w' v'] d IH]; cbn [wdict_set wdict_find]; [rewrite (proj2 (beq_eq w w) eq_refl); reflexivity|].
  destruct (beq w' w) eqn:E; cbn [wdict_find]; [rewrite (proj2 (beq_eq w w) eq_refl); reflexivity|rewrite E; exact IH]. Qed.
Lemma lz_set_find_other {V} (d:wdict V) w v w2 : w2 <> w -> wdict_find (wdict_set d w v) w2 = wdict_find d w2.
Proof. intros Hne. induction d as [|[w' v'] d IH]; cbn [wdict_set wdict_find].
  - destruct (beq w w2) eqn:E; [apply beq_eq in E; congruence|reflexivity].
  - destruct (beq w' w) eqn:E; cbn [wdict_find].
    + apply beq_eq in E. subst w'. destruct (beq w w2) eqn:E2; [apply beq_eq in E2; congruence|reflexivity].
    + destruct (beq w' w2); [reflexivity|exact IH]. Qed.
Lemma lz_set_keys {V} (d:wdict V) w v : In w (map fst d) -> map fst (wdict_set d w v) = map fst d.
Proof. induction d as [|[w' v'] d IH]; intros Hin; [destruct Hin|]. cbn [wdict_set]. destruct (beq w' w) eqn:E.
  - apply beq_eq in E. subst. reflexivity.
  - cbn [map fst]. f_equal. apply IH. destruct Hin as [Hin|Hin]; [cbn in Hin; subst; rewrite (proj2 (beq_eq w w) eq_refl) in E; discriminate|exact Hin]. Qed.
Lemma lz_set_in {V} (d:wdict V) w v x : In x (wdict_set d w v) -> In x d \/ x = (w, v).
Proof. induction d as [|[w' v'] d IH]; cbn [wdict_set]; [intros [<-|[]]; right; reflexivity|].
  destruct (beq w' w); intros [<-|Hin]; [right; reflexivity|left; right; exact Hin|left; left; reflexivity|].
  destruct (IH Hin) as [H|H]; [left; right; exact H|right; exact H]. Qed.

Definition table_ok (P:world -> Prop) (f:world -> Z) (rk:wdict (option Z)) : Prop :=
  forall w v, In (w, v) rk -> P w /\ (v = None \/ v = Some (f w)).

Theorem lazy_rank_world_spec (P:world -> Prop) (f:world -> Z) (comp:world -> ctl Z unit unit) :
  (forall w, P w -> comp w = Return (f w)) ->
  forall rk w force, table_ok P f rk -> In w (map fst rk) ->
  exists rk', lazy_rank_world (comp w) w force rk = Return (f w, rk') /\
    map fst rk' = map fst rk /\ table_ok P f rk' /\ wdict_find rk' w = Some (Some (f w)) /\
    (forall w2, w2 <> w -> wdict_find rk' w2 = wdict_find rk w2).
Proof. intros Hcomp rk w force Hok Hin. destruct (lz_find_in rk w Hin) as [v [Hf Hi]]. destruct (Hok w v Hi) as [Hw Hv].
  unfold lazy_rank_world. unfold wdict_get at 1. rewrite Hf.
  assert (Hcompute: exists rk', cbind (call (comp w) (fun r3 => let rk0 := wdict_set rk w (Some r3) in Next rk0))
                      (fun rk0 : wdict (option Z) => cbind (wdict_get rk0 w) (fun t4 => let v_rank := t4 in cbind (py_assert (negb (is_none v_rank))) (fun _ => cbind (py_unopt v_rank) (fun t5 => Return (t5, rk0)))))
                    = @Return (Z * wdict (option Z)) unit unit (f w, rk') /\
                    map fst rk' = map fst rk /\ table_ok P f rk' /\ wdict_find rk' w = Some (Some (f w)) /\
                    (forall w2, w2 <> w -> wdict_find rk' w2 = wdict_find rk w2)).
  { exists (wdict_set rk w (Some (f w))). rewrite (Hcomp w Hw). cbn [call cbind]. cbv zeta.
    unfold wdict_get. rewrite lz_set_find_same. cbn [cbind is_none negb py_assert py_unopt]. split; [reflexivity|].
    split; [apply lz_set_keys; exact Hin|]. split; [|split; [first [reflexivity|apply lz_set_find_same]|intros w2 H2; apply lz_set_find_other; exact H2]].
    intros w' v' Hin'. apply lz_set_in in Hin' as [Hin'|E]; [apply Hok; exact Hin'|]. inversion E; subst. split; [exact Hw|right; reflexivity]. }
  destruct force; cbn [cbind].
  - exact Hcompute.
  - destruct Hv as [->| ->]; cbn [is_none cbind].
    + exact Hcompute.
    + exists rk. cbv zeta. unfold wdict_get. rewrite Hf. cbn [cbind is_none negb py_assert py_unopt]. split; [reflexivity|].
      split; [reflexivity|]. split; [exact Hok|]. split; [first [reflexivity|exact Hf]|reflexivity]. Qed.
