From InfOCF Require Import Core Tol Form Model PyLib TieLib TieSet TieSolver.
From InfOCFGen Require Import SrcCond.
From Coq Require Import ZArith.
(* Lemmas shared by the tie proofs of the MaxSAT-based operators (System W, lexicographic inference): a base with
   distinct keys, a layering of it, CNF dictionaries meeting their contract; the `ignore` list leaves exactly the
   layer; PyLib.mcs is the minimal family of the model; loops that append clauses.  No operator source involved. *)

Section TieMax.
Variable n : nat.
Notation W := (worlds n).
Variable D : list cond.
Definition kz (c:cond) : Z := Z.of_nat (ckey c).
Hypothesis Hnd : NoDup (map kz D).
(* the partition: layer i holds, in the order of the base, the conditionals of index i *)
Variable lay : cond -> nat.
Variable m : nat.
Hypothesis Hlay : forall c, In c D -> lay c < m.
Definition layer_c (i:nat) : list cond := filter (fun c => lay c =? i) D.
Definition Pc : list (list cond) := map layer_c (seq 0 m).
Definition Pk : list (list Z) := map (map kz) Pc.
(* the CNF dictionaries, by their contract *)
Variables nf fd : dict Z scnf.
Hypothesis Hnfk : dict_keys nf = map kz D.
Hypothesis Hnf : forall c, In c D -> exists cn, zdict_find nf (kz c) = Some cn /\ forall w, scnf_holds cn w = negb (fal c w).
Hypothesis Hfd : forall c, In c D -> exists cn, zdict_find fd (kz c) = Some cn /\ forall w, scnf_holds cn w = fal c w.

Lemma kz_inj c c' : In c D -> In c' D -> kz c = kz c' -> c = c'.
Proof. clear -Hnd. induction D as [|d D0 IH]; [intros []|]. simpl in Hnd. inversion Hnd as [|? ? Hni Hn']; subst.
  intros [->|H1] [->|H2] E; auto.
  - exfalso. apply Hni. rewrite E. apply in_map. exact H2.
  - exfalso. apply Hni. rewrite <- E. apply in_map. exact H1. Qed.
Lemma layer_c_in i c : In c (layer_c i) <-> In c D /\ lay c = i.
Proof. unfold layer_c. rewrite filter_In, Nat.eqb_eq. tauto. Qed.
Lemma layer_c_sub i c : In c (layer_c i) -> In c D.  Proof. intros H. apply layer_c_in in H. tauto. Qed.
Lemma zlist_eqb_eq a b : zlist_eqb a b = true -> a = b.
Proof. revert b. induction a as [|x a IH]; intros [|y b]; simpl; try discriminate; auto.
  intros H. apply andb_true_iff in H as [H1 H2]. apply Z.eqb_eq in H1. f_equal; auto. Qed.
Lemma zlist_eqb_refl a : zlist_eqb a a = true.
Proof. induction a; simpl; auto. rewrite Z.eqb_refl. auto. Qed.
Lemma NoDup_map_filter (p:cond->bool) : NoDup (map kz (filter p D)).
Proof. clear -Hnd. induction D as [|d D0 IH]; simpl; [constructor|]. simpl in Hnd. inversion Hnd as [|? ? Hni Hn']; subst.
  destruct (p d); simpl; [constructor|]; auto. intros H. apply Hni. apply in_map_iff in H as [c [E Hc]].
  apply filter_In in Hc as [Hc _]. rewrite <- E. apply in_map. exact Hc. Qed.
Lemma part_nodup i : NoDup (map kz (layer_c i)).  Proof. apply NoDup_map_filter. Qed.

(* `ignore`: the keys of all other layers; what is left of the dictionary's keys is the layer itself, in order *)
Definition ignore_of (i:nat) : list Z :=
  flat_map (fun v_sublist => map (fun v_item => v_item) v_sublist)
           (filter (fun v_sublist => negb (zlist_eqb v_sublist (map kz (layer_c i)))) Pk).
Lemma keys_part i : i < m ->
  filter (fun k => negb (zmem k (ignore_of i))) (map kz D) = map kz (layer_c i).
Proof. intros Hi. unfold layer_c at 1.
  assert (E: forall c, In c D -> negb (zmem (kz c) (ignore_of i)) = (lay c =? i)).
  { intros c Hc. destruct (lay c =? i) eqn:El.
    - apply Nat.eqb_eq in El. apply negb_true_iff. apply zmem_false. intros Hin.
      unfold ignore_of in Hin. apply in_flat_map in Hin as [sub [Hsub Hk]]. rewrite map_id in Hk.
      apply filter_In in Hsub as [Hsub Hne]. unfold Pk, Pc in Hsub. rewrite map_map in Hsub.
      apply in_map_iff in Hsub as [j [Ej Hj]]. subst sub.
      apply in_map_iff in Hk as [c' [Ek Hc']]. apply layer_c_in in Hc' as [Hc'D Hl'].
      apply kz_inj in Ek; auto. subst c'. subst j. rewrite El in Hne.
      rewrite zlist_eqb_refl in Hne. discriminate.
    - apply Nat.eqb_neq in El. apply negb_false_iff. apply zmem_in.
      unfold ignore_of. apply in_flat_map. exists (map kz (layer_c (lay c))). split.
      + apply filter_In. split.
        * unfold Pk, Pc. rewrite map_map. apply in_map_iff. exists (lay c). split; auto. apply in_seq. pose proof (Hlay c Hc). lia.
        * apply negb_true_iff. destruct (zlist_eqb _ _) eqn:Eq; auto. apply zlist_eqb_eq in Eq.
          assert (Hin: In (kz c) (map kz (layer_c (lay c)))) by (apply in_map; apply layer_c_in; auto).
          rewrite Eq in Hin. apply in_map_iff in Hin as [c' [Ek Hc']]. apply layer_c_in in Hc' as [Hc'D Hl'].
          apply kz_inj in Ek; auto. subst c'. congruence.
      + rewrite map_id. apply in_map. apply layer_c_in. auto. }
  clear Hi. revert E. generalize (ignore_of i). intros ig. clear -D. induction D as [|d D0 IH]; intros E; [reflexivity|].
  simpl. rewrite (E d) by (left; reflexivity). destruct (lay d =? i); simpl; [f_equal|]; apply IH; intros c Hc; apply E; right; exact Hc. Qed.

(* violation pattern read from the CNF dictionary = the model's falsification pattern of the layer *)
Lemma violated_layer L w : (forall c, In c L -> In c D) ->
  violated_bv nf (map kz L) w = layer_of (map ac L) w.
Proof. intros Hs. unfold violated_bv, layer_of. rewrite !map_map. apply map_ext_in. intros c Hc.
  destruct (Hnf c (Hs c Hc)) as [cn [E1 E2]]. rewrite E1, E2. apply negb_involutive. Qed.

Lemma mcs_is_minimal_family i wc (H phi:pred world) : i < m ->
  (forall w, scnf_holds (w_hard wc) w = H w && phi w) ->
  mcs n nf wc (ignore_of i)
  = map (keys_of_bv (map kz (layer_c i))) (minimal (fam world W H (layer_of (map ac (layer_c i))) phi)).
Proof. intros Hi Hh. unfold mcs. rewrite Hnfk, keys_part by exact Hi. f_equal. f_equal. unfold fam, sel. f_equal.
  rewrite (filter_ext _ _ Hh). apply map_ext. intros w. apply violated_layer. intros c. apply layer_c_sub. Qed.

(* ---- loops that only append clauses ---- *)
Lemma for_each_steps {A R L S} (l:list A) (body:A -> S -> ctl R S S) (step:A -> S -> S) s :
  (forall a s', In a l -> body a s' = Next (step a s')) ->
  @for_each A R L S l body s = Next (fold_left (fun s' a => step a s') l s).
Proof. revert s. induction l as [|a l IH]; intros s Hb; [reflexivity|]. cbn [for_each fold_left].
  rewrite Hb by (left; reflexivity). apply IH. intros a' s' Ha. apply Hb. right. exact Ha. Qed.
Lemma scnf_holds_app a b w : scnf_holds (a ++ b) w = scnf_holds a w && scnf_holds b w.
Proof. unfold scnf_holds. apply forallb_app. Qed.
Lemma w_hard_append_fold cn wc : w_hard (fold_left (fun x c => w_append x c) cn wc) = w_hard wc ++ cn.
Proof. revert wc. induction cn as [|c cn IH]; intros wc; simpl; [rewrite app_nil_r; reflexivity|].
  rewrite IH. simpl. rewrite <- app_assoc. reflexivity. Qed.
Lemma w_hard_soft_fold cn wc : w_hard (fold_left (fun x c => w_append_soft x c) cn wc) = w_hard wc.
Proof. revert wc. induction cn as [|c cn IH]; intros wc; simpl; [reflexivity|]. rewrite IH. reflexivity. Qed.

Definition getd (d:dict Z scnf) (k:Z) : scnf := match zdict_find d k with Some cn => cn | None => [] end.
Lemma get_nf c {R L} : In c D -> @zdict_get scnf R L nf (kz c) = Next (getd nf (kz c)).
Proof. intros Hc. unfold zdict_get, getd. destruct (Hnf c Hc) as [cn [E _]]. rewrite E. reflexivity. Qed.
Lemma get_fd c {R L} : In c D -> @zdict_get scnf R L fd (kz c) = Next (getd fd (kz c)).
Proof. intros Hc. unfold zdict_get, getd. destruct (Hfd c Hc) as [cn [E _]]. rewrite E. reflexivity. Qed.
Lemma getd_nf_holds c w : In c D -> scnf_holds (getd nf (kz c)) w = negb (fal c w).
Proof. intros Hc. unfold getd. destruct (Hnf c Hc) as [cn [E1 E2]]. rewrite E1. apply E2. Qed.
Lemma getd_fd_holds c w : In c D -> scnf_holds (getd fd (kz c)) w = fal c w.
Proof. intros Hc. unfold getd. destruct (Hfd c Hc) as [cn [E1 E2]]. rewrite E1. apply E2. Qed.

(* hard clauses after appending the CNFs of a list of conditionals *)
Lemma hard_after (d:dict Z scnf) (g:cond -> world -> bool) Ls wc w :
  (forall c, In c Ls -> scnf_holds (getd d (kz c)) w = g c w) ->
  scnf_holds (w_hard (fold_left (fun s' k => fold_left (fun x c => w_append x c) (getd d k) s') (map kz Ls) wc)) w
  = scnf_holds (w_hard wc) w && forallb (fun c => g c w) Ls.
Proof. revert wc. induction Ls as [|c Ls IH]; intros wc Hg; simpl; [rewrite andb_true_r; reflexivity|].
  rewrite IH by (intros c' Hc'; apply Hg; right; exact Hc'). rewrite w_hard_append_fold, scnf_holds_app.
  rewrite Hg by (left; reflexivity). rewrite andb_assoc. reflexivity. Qed.
Lemma soft_after Ls wc :
  w_hard (fold_left (fun s' k => fold_left (fun x c => w_append_soft x c) (getd nf k) s') (map kz Ls) wc) = w_hard wc.
Proof. revert wc. induction Ls as [|c Ls IH]; intros wc; simpl; [reflexivity|]. rewrite IH. apply w_hard_soft_fold. Qed.

(* the conditionals selected / not selected by a bit-vector over a layer *)
Fixpoint sel_b (b:bool) (L:list cond) (x:bv) : list cond :=
  match L, x with c::L', y::x' => if Bool.eqb y b then c :: sel_b b L' x' else sel_b b L' x' | _, _ => [] end.
Lemma kob_sel L x : keys_of_bv (map kz L) x = map kz (sel_b true L x).
Proof. revert x. induction L as [|c L IH]; intros [|y x]; simpl; try reflexivity. destruct y; simpl; rewrite IH; reflexivity. Qed.
Lemma sel_b_in b L x c : In c (sel_b b L x) -> In c L.
Proof. revert x. induction L as [|d L IH]; intros [|y x] H; simpl in *; try tauto.
  destruct (Bool.eqb y b); [destruct H as [->|H]; [left; reflexivity|right; eauto]|right; eauto]. Qed.
Lemma diff_sel L x : NoDup (map kz L) -> length x = length L ->
  zset_diff (map kz L) (keys_of_bv (map kz L) x) = map kz (sel_b false L x).
Proof. intros Hn. revert x. induction L as [|c L IH]; intros [|y x] Hl; simpl in Hl; try discriminate; [reflexivity|].
  injection Hl as Hl. simpl in Hn. inversion Hn as [|? ? Hni Hn']; subst.
  assert (Hstep: forall ks, (forall k, In k (map kz L) -> k <> kz c) ->
            zset_diff (map kz L) (kz c :: ks) = zset_diff (map kz L) ks).
  { intros ks Hk. unfold zset_diff. apply filter_ext_in. intros k Hkin. unfold zmem. simpl.
    destruct (k =? kz c)%Z eqn:E; [apply Z.eqb_eq in E; exfalso; eapply Hk; eauto|reflexivity]. }
  assert (Hne: forall k, In k (map kz L) -> k <> kz c) by (intros k Hk ->; auto).
  cbn [map keys_of_bv sel_b]. destruct y; cbn [Bool.eqb].
  - unfold zset_diff at 1. cbn [filter]. unfold zmem at 1. cbn [existsb]. rewrite Z.eqb_refl. cbn [orb negb].
    fold (zset_diff (map kz L) (kz c :: keys_of_bv (map kz L) x)). rewrite Hstep by exact Hne. apply IH; auto.
  - unfold zset_diff at 1. cbn [filter].
    assert (Hnot: zmem (kz c) (keys_of_bv (map kz L) x) = false).
    { apply zmem_false. intros H. apply Hni. eapply kob_in; eauto. }
    rewrite Hnot. cbn [negb map]. f_equal. fold (zset_diff (map kz L) (keys_of_bv (map kz L) x)). apply IH; auto.
Qed.
Lemma sel_pattern L x w : length x = length L ->
  forallb (fun c => fal c w) (sel_b true L x) && forallb (fun c => negb (fal c w)) (sel_b false L x)
  = beq (layer_of (map ac L) w) x.
Proof. revert x. induction L as [|c L IH]; intros [|y x] Hl; simpl in Hl; try discriminate; [reflexivity|].
  injection Hl as Hl. specialize (IH x Hl). cbn [sel_b map layer_of beq]. fold (layer_of (map ac L) w).
  change (cfal world (ac c) w) with (fal c w).
  destruct y; cbn [Bool.eqb forallb]; rewrite <- IH; destruct (fal c w); cbn [negb andb Bool.eqb]; try reflexivity;
  rewrite ?andb_false_r; reflexivity. Qed.

(* hard clauses after the loop `for i in part: f_cnf[i] if i in xi else nf_cnf[i]` *)
Lemma hard_member S Ls wc w : (forall c, In c Ls -> In c D) ->
  scnf_holds (w_hard (fold_left (fun hv k => fold_left (fun x c => w_append x c) (getd (if zmem k S then fd else nf) k) hv) (map kz Ls) wc)) w
  = scnf_holds (w_hard wc) w && forallb (fun c => Bool.eqb (fal c w) (zmem (kz c) S)) Ls.
Proof. revert wc. induction Ls as [|c Ls IH]; intros wc HL; simpl; [rewrite andb_true_r; reflexivity|].
  rewrite IH by (intros c' Hc'; apply HL; right; exact Hc'). rewrite w_hard_append_fold, scnf_holds_app.
  assert (Hc: In c D) by (apply HL; left; reflexivity).
  destruct (zmem (kz c) S); [rewrite getd_fd_holds by exact Hc|rewrite getd_nf_holds by exact Hc];
  rewrite andb_assoc; f_equal; f_equal; destruct (fal c w); reflexivity. Qed.
Lemma member_pattern (g:cond -> bool) L x : NoDup (map kz L) -> length x = length L ->
  forallb (fun c => Bool.eqb (g c) (zmem (kz c) (keys_of_bv (map kz L) x))) L = beq (map g L) x.
Proof. intros Hn. revert x. induction L as [|c L IH]; intros [|y x] Hl; simpl in Hl; try discriminate; [reflexivity|].
  injection Hl as Hl. simpl in Hn. inversion Hn as [|? ? Hni Hn']; subst. specialize (IH Hn' x Hl).
  cbn [map keys_of_bv forallb beq].
  assert (Hhead: zmem (kz c) (if y then kz c :: keys_of_bv (map kz L) x else keys_of_bv (map kz L) x) = y).
  { destruct y; [unfold zmem; simpl; rewrite Z.eqb_refl; reflexivity|]. apply zmem_false. intros H. apply Hni. eapply kob_in; eauto. }
  rewrite Hhead. f_equal. rewrite <- IH. apply forallb_ext_in. intros c' Hc'. f_equal.
  destruct y; [|reflexivity]. unfold zmem. simpl.
  destruct (kz c' =? kz c)%Z eqn:E; [|reflexivity]. apply Z.eqb_eq in E. exfalso. apply Hni. rewrite <- E. apply in_map. exact Hc'. Qed.

(* ---- the recursion ---- *)
Notation P := (acP Pc).
Lemma Pc_length : length Pc = m.  Proof. unfold Pc. rewrite map_length, seq_length. reflexivity. Qed.
Lemma Pc_nth k : k < m -> nth k Pc [] = layer_c k.
Proof. intros Hk. unfold Pc. rewrite (nth_indep _ [] (layer_c 0)) by (rewrite map_length, seq_length; exact Hk).
  rewrite map_nth. rewrite seq_nth by exact Hk. reflexivity. Qed.
Lemma Pk_nth k : k < m -> nth k Pk [] = map kz (layer_c k).
Proof. intros Hk. unfold Pk. change (@nil Z) with (map kz []). rewrite map_nth, Pc_nth by exact Hk. reflexivity. Qed.

Lemma fam_len H F phi x L : (forall w, length (F w) = L) -> In x (minimal (fam world W H F phi)) -> length x = L.
Proof. intros HF Hx. apply minimal_in in Hx as [Hx _]. apply fam_in in Hx as [w [_ [_ [_ E]]]]. rewrite <- E. apply HF. Qed.
Lemma layer_of_len L w : length (layer_of L w) = length L.
Proof. unfold layer_of. apply map_length. Qed.

End TieMax.

Section TieMaxTop.
Variable n : nat.
Notation W := (worlds n).
Variable D : list cond.
Hypothesis Hnd : NoDup (map kz D).
Variable lay : cond -> nat.
Variable m : nat.
Hypothesis Hlay : forall c, In c D -> lay c < m.
Hypothesis Hm : 0 < m.
Variables nf fd : dict Z scnf.
Hypothesis Hnfk : dict_keys nf = map kz D.
Hypothesis Hnf : forall c, In c D -> exists cn, zdict_find nf (kz c) = Some cn /\ forall w, scnf_holds cn w = negb (fal c w).
Hypothesis Hfd : forall c, In c D -> exists cn, zdict_find fd (kz c) = Some cn /\ forall w, scnf_holds cn w = fal c w.
Variable bb : pybase.
Hypothesis Hbb : forall c, In c D -> zdict_find (bb_conditionals bb) (kz c) = Some c.
Notation Pc := (Pc D lay m).
Notation Pk := (Pk D lay m).
Notation P := (acP Pc).

Lemma last_nth {A} (l:list A) d : last l d = nth (length l - 1) l d.
Proof. induction l as [|a l IH]; [reflexivity|]. destruct l as [|b l]; [reflexivity|].
  change (last (a::b::l) d) with (last (b::l) d). rewrite IH. simpl length.
  replace (S (S (length l)) - 1) with (S (S (length l) - 1)) by lia. reflexivity. Qed.
Lemma Pk_length : length Pk = m.
Proof. unfold TieMax.Pk. rewrite map_length. apply Pc_length. Qed.
Lemma Pk_last : last Pk [] = map kz (layer_c D lay (m - 1)).
Proof. rewrite last_nth, Pk_length. apply Pk_nth. lia. Qed.

Lemma P_last : inf_layer P = map ac (layer_c D lay (m - 1)).
Proof. rewrite inf_layer_acP. f_equal. rewrite last_nth, Pc_length. apply Pc_nth. lia. Qed.
Lemma feas_last w : feas (map ac (layer_c D lay (m - 1))) w = forallb (fun c => negb (fal c w)) (layer_c D lay (m - 1)).
Proof. unfold feas, nofals. rewrite forallb_map. reflexivity. Qed.

Definition getc (k:Z) : cond := match zdict_find (bb_conditionals bb) k with Some c => c | None => mk_cond FTop FTop end.
Lemma get_bb c {R L} : In c D -> @zdict_get cond R L (bb_conditionals bb) (kz c) = Next (getc (kz c)).
Proof. intros Hc. unfold zdict_get, getc. rewrite (Hbb c Hc). reflexivity. Qed.
Lemma getc_kz c : In c D -> getc (kz c) = c.
Proof. intros Hc. unfold getc. rewrite (Hbb c Hc). reflexivity. Qed.
Lemma solver_after Ls s w : (forall c, In c Ls -> In c D) ->
  s_holds (fold_left (fun s' k => s_add s' (py_make_not_A_or_B n (getc k))) (map kz Ls) s) w
  = s_holds s w && forallb (fun c => negb (fal c w)) Ls.
Proof. revert s. induction Ls as [|c Ls IH]; intros s HL; simpl; [rewrite andb_true_r; reflexivity|].
  rewrite IH by (intros c' Hc'; apply HL; right; exact Hc'). rewrite s_holds_add, getc_kz by (apply HL; left; reflexivity).
  assert (E: eval w (py_make_not_A_or_B n c) = negb (fal c w)).
  { simpl. unfold fal. destruct (eval w (cante c)), (eval w (ccons c)); reflexivity. }
  rewrite E. destruct (negb (fal c w)), (s_holds s w); reflexivity. Qed.

End TieMaxTop.

(* the CNF dictionaries as preprocessing fills them, by their contract: one clause per CNF *)
Section Canon.
Variable n : nat.
Variable D : list cond.
Hypothesis Hnd : NoDup (map kz D).
(* the dictionaries as the preprocessing fills them, by their contract: one clause per CNF *)
Definition nf_of : dict Z scnf := map (fun c => (kz c, [fun w => negb (fal c w)])) D.
Definition fd_of : dict Z scnf := map (fun c => (kz c, [fun w => fal c w])) D.
Definition bb_of : pybase := Build_pybase (map (fun c => (kz c, c)) D).

Lemma find_canon {V} (g:cond -> V) c : In c D -> zdict_find (map (fun c => (kz c, g c)) D) (kz c) = Some (g c).
Proof. clear -Hnd. induction D as [|d D0 IH]; [intros []|]. simpl in Hnd. inversion Hnd as [|? ? Hni Hn']; subst.
  intros [->|Hc]; simpl.
  - rewrite Z.eqb_refl. reflexivity.
  - destruct (kz d =? kz c)%Z eqn:E; [|auto]. apply Z.eqb_eq in E. exfalso. apply Hni. rewrite E. apply in_map. exact Hc. Qed.
Lemma nf_of_keys : dict_keys nf_of = map kz D.
Proof. unfold dict_keys, nf_of. rewrite map_map. reflexivity. Qed.
Lemma nf_of_ok c : In c D -> exists cn, zdict_find nf_of (kz c) = Some cn /\ forall w, scnf_holds cn w = negb (fal c w).
Proof. intros Hc. eexists. split; [apply (find_canon (fun c => [fun w => negb (fal c w)])); exact Hc|].
  intros w. simpl. apply andb_true_r. Qed.
Lemma fd_of_ok c : In c D -> exists cn, zdict_find fd_of (kz c) = Some cn /\ forall w, scnf_holds cn w = fal c w.
Proof. intros Hc. eexists. split; [apply (find_canon (fun c => [fun w => fal c w])); exact Hc|].
  intros w. simpl. apply andb_true_r. Qed.
Lemma bb_of_ok c : In c D -> zdict_find (bb_conditionals bb_of) (kz c) = Some c.
Proof. intros Hc. apply (find_canon (fun c => c)). exact Hc. Qed.

End Canon.
