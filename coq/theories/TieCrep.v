From InfOCF Require Import Core Tol CInf Form Model CModel PyLib TieLib TieSolver.
From InfOCFGen Require Import SrcCond SrcCrep.
From Coq Require Import ZArith.
(* TIE: RandomMinCRepPreOCF.c_vec2ocf GENERATED from inference/preocf.py (gen/SrcCrep.v) returns the rank kappa_eta of the
   model (CModel.ckappa: the sum of the impacts of the conditionals the world falsifies), for every signature size,
   base, impact vector of the base's length and world of the signature. *)

Section TieCrep.
Variable n : nat.
Notation W := (worlds n).
Variable w : world.
Hypothesis Hw : In w W.

Lemma pinned_falsifies c : s_solve n (s_add (fold_left (fun v_solver v_sym => let v_solver := s_add v_solver v_sym in v_solver) (world_lits w) new_solver)
                                     (py_make_A_then_not_B n c)) = fal c w.
Proof. rewrite (s_solve_ext_in n _ (fun w' => fal c w' && beq w' w)).
  - apply (existsb_point n (fun w' => fal c w') w Hw).
  - intros w' Hw'. rewrite s_holds_add. change (fun v_solver v_sym => let v_solver0 := s_add v_solver v_sym in v_solver0) with s_add.
    rewrite s_holds_fold_add. simpl. rewrite andb_true_r.
    rewrite world_lits_hold by (rewrite (worlds_length n w' Hw'), (worlds_length n w Hw); reflexivity). reflexivity. Qed.

Lemma loop_crep (imp:list Z) (body:Z * cond -> Z -> ctl Z Z Z) :
  (forall pos c acc, body (pos, c) acc
     = cbind (if fal c w then cbind (py_index imp pos) (fun t2 => Next (acc + t2)%Z) else Next acc) (fun r => Next r)) ->
  forall L eta i pre acc, imp = map Z.of_nat (pre ++ eta) -> length eta = length L -> length pre = i ->
  @for_each (Z * cond) Z unit Z (py_enumerate_from (Z.of_nat i) L) body acc
  = Next (acc + Z.of_nat (sumsel (map (fun c => fal c w) L) eta))%Z.
Proof. intros Hbody. induction L as [|c L IH]; intros [|e eta] i pre acc Himp Hl Hi; simpl in Hl; try discriminate.
  - simpl. rewrite Z.add_0_r. reflexivity.
  - injection Hl as Hl. cbn [py_enumerate_from for_each map sumsel]. rewrite Hbody.
    assert (Eidx: forall R0 L0, @py_index Z R0 L0 imp (Z.of_nat i) = Next (Z.of_nat e)).
    { intros R0 L0. rewrite Himp. rewrite (py_index_nat _ i 0%Z) by (rewrite map_length, app_length; simpl; lia).
      f_equal. change 0%Z with (Z.of_nat 0). rewrite (map_nth Z.of_nat). f_equal. rewrite app_nth2 by lia. rewrite Hi, Nat.sub_diag. reflexivity. }
    replace (Z.of_nat i + 1)%Z with (Z.of_nat (S i)) by lia.
    assert (Epre: pre ++ e :: eta = (pre ++ [e]) ++ eta) by (rewrite <- app_assoc; reflexivity).
    destruct (fal c w); cbn [cbind].
    + rewrite Eidx. cbn [cbind]. rewrite (IH eta (S i) (pre ++ [e])); [f_equal; lia|rewrite Himp, Epre; reflexivity|exact Hl|rewrite app_length; simpl; lia].
    + rewrite (IH eta (S i) (pre ++ [e])); [f_equal|rewrite Himp, Epre; reflexivity|exact Hl|rewrite app_length; simpl; lia]. Qed.

Theorem tie_c_vec2ocf D (d:dict Z cond) eta : dict_values d = D -> length eta = length D ->
  py_RandomMinCRepPreOCF_c_vec2ocf n d (map Z.of_nat eta) w = Return (Z.of_nat (ckappa D eta w)).
Proof. intros Ed Hl. unfold py_RandomMinCRepPreOCF_c_vec2ocf. rewrite Ed. unfold py_enumerate.
  match goal with |- context [for_each _ ?b _] => set (body := b) end.
  change 0%Z with (Z.of_nat 0) at 1.
  rewrite (loop_crep (map Z.of_nat eta) body) with (eta := eta) (pre := []); auto.
  - cbv zeta. cbn [cbind]. f_equal. unfold ckappa, kappa, F. rewrite map_map. reflexivity.
  - intros pos c acc. unfold body. cbv beta iota zeta. rewrite pinned_falsifies. reflexivity.
Qed.
End TieCrep.

(* RandomMinCRepPreOCF.rank_world: the generated method is the lazily filled table around c_vec2ocf *)
From InfOCF Require Import TieLazy.
Theorem tie_crep_rank_world n D (d:dict Z cond) eta (rk:wdict (option Z)) w force : dict_values d = D -> length eta = length D ->
  table_ok (fun w => In w (worlds n)) (fun w => Z.of_nat (ckappa D eta w)) rk -> In w (map fst rk) ->
  exists rk', py_RandomMinCRepPreOCF_rank_world n d (map Z.of_nat eta) w force rk = Return (Z.of_nat (ckappa D eta w), rk') /\
    map fst rk' = map fst rk /\ table_ok (fun w => In w (worlds n)) (fun w => Z.of_nat (ckappa D eta w)) rk' /\
    wdict_find rk' w = Some (Some (Z.of_nat (ckappa D eta w))) /\ (forall w2, w2 <> w -> wdict_find rk' w2 = wdict_find rk w2).
Proof. intros Ed Hl Hok Hin.
  change (py_RandomMinCRepPreOCF_rank_world n d (map Z.of_nat eta) w force rk)
    with (lazy_rank_world (py_RandomMinCRepPreOCF_c_vec2ocf n d (map Z.of_nat eta) w) w force rk).
  apply (lazy_rank_world_spec (fun w => In w (worlds n)) (fun w => Z.of_nat (ckappa D eta w)) (fun w => py_RandomMinCRepPreOCF_c_vec2ocf n d (map Z.of_nat eta) w)); [|exact Hok|exact Hin].
  intros w0 Hw0. apply (tie_c_vec2ocf n w0 Hw0 D d eta Ed Hl). Qed.
