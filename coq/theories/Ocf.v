From InfOCF Require Import Core Tol SysZ Kz Form Model Diag.
(* M for inference/preocf.py: ranking tables, formula_rank, conditional_acceptance, marginalize,
   conditionalization, ranks2tpo / tpo2ranks (C18); the lazily filled System Z ranking object (C16).
   Executable definitions only. *)

(* ---------- C18: tables in dictionary order ---------- *)
Definition table := list (world * option nat).
Definition frank (t:table) (f:form) : option nat :=
  minl (flat_map (fun p => match snd p with Some r => if eval (fst p) f then [r] else [] | None => [] end) t).
Definition accept (t:table) (c:cond) : bool :=
  match frank t (FAnd (cante c) (ccons c)), frank t (FAnd (cante c) (FNot (ccons c))) with
  | None, _ => false | Some _, None => true | Some v, Some n => v <? n end.
(* delete the positions listed in drop (atom indices) from a world *)
Fixpoint del_from (i:nat) (drop:list nat) (w:world) : world :=
  match w with [] => [] | b::r => if existsb (Nat.eqb i) drop then del_from (S i) drop r else b :: del_from (S i) drop r end.
Definition del := del_from 0.
Fixpoint upd_min (acc:table) (u:world) (r:nat) : table :=
  match acc with [] => [(u, Some r)]
  | (x, v)::rest => if beq x u then (x, match v with Some m => Some (Nat.min m r) | None => Some r end) :: rest
                    else (x, v) :: upd_min rest u r end.
Definition marginalize (drop:list nat) (t:table) : table :=
  fold_left (fun acc p => match snd p with Some r => upd_min acc (del drop (fst p)) r | None => acc end) t [].
Definition conditionalize (t:table) (f:form) : table := filter (fun p => eval (fst p) f) t.
(* ranks2tpo: rank classes in ascending order of rank *)
Fixpoint insert_u (x:nat) (l:list nat) : list nat :=
  match l with [] => [x] | y::r => if x <? y then x :: y :: r else if x =? y then y :: r else y :: insert_u x r end.
Definition rank_values (t:table) : list nat :=
  fold_right insert_u [] (flat_map (fun p => match snd p with Some r => [r] | None => [] end) t).
Definition ranks2tpo (t:table) : list (list world) :=
  map (fun k => map fst (filter (fun p => match snd p with Some r => r =? k | None => false end) t)) (rank_values t).
Fixpoint tpo2ranks_from (i:nat) (tpo:list (list world)) (fn:nat -> nat) : list (world * nat) :=
  match tpo with [] => [] | L::rest => map (fun w => (w, fn i)) L ++ tpo2ranks_from (S i) rest fn end.
Definition tpo2ranks := tpo2ranks_from 0.

(* ---------- C16: the System Z ranking object ---------- *)
Definition zrank_of (P:list (list (acond world))) (w:world) : nat := zrank world (layers P) w.
(* construction: facts become (Bottom | not phi) under keys max+1.., extended defaults to "facts present" *)
Definition zocf_mode (ext:option bool) (facts:list form) : bool :=
  match ext with Some b => b | None => match facts with [] => false | _ => true end end.
Definition zocf_partition (n:nat) (ext:option bool) (facts:list form) (D:list cond) :=
  consistency n (zocf_mode ext facts) (augment D facts).
Definition cache := list (option nat).                 (* parallel to worlds n *)
Inductive zop := ORank (i:nat) | OForce (i:nat) | OAll | OFrank (f:form) | OAccept (c:cond).
Inductive zout := VNat (r:nat) | VOpt (r:option nat) | VBool (b:bool) | VTable (t:list nat).
Fixpoint set_nth {A} (i:nat) (x:A) (l:list A) : list A :=
  match l, i with [] , _ => [] | _::r, 0 => x :: r | y::r, S j => y :: set_nth j x r end.
Section Z.
Variable n : nat.
Variable P : list (list (acond world)).
Definition zr (i:nat) : nat := zrank_of P (nth i (worlds n) []).
Definition rank_world (c:cache) (i:nat) (force:bool) : cache * nat :=
  match nth i c None with
  | Some r => if force then (set_nth i (Some (zr i)) c, zr i) else (c, r)
  | None => (set_nth i (Some (zr i)) c, zr i) end.
Fixpoint rank_many (c:cache) (is:list nat) : cache * list nat :=
  match is with [] => (c, []) | i::r => let (c1, v) := rank_world c i false in let (c2, vs) := rank_many c1 r in (c2, v :: vs) end.
Definition sat_indices (f:form) : list nat :=
  map fst (filter (fun p => eval (snd p) f) (combine (seq 0 (length (worlds n))) (worlds n))).
Definition frank_z (c:cache) (f:form) : cache * option nat :=
  let (c1, vs) := rank_many c (sat_indices f) in (c1, minl vs).
Definition zstep (c:cache) (o:zop) : cache * zout :=
  match o with
  | ORank i => let (c1, v) := rank_world c i false in (c1, VNat v)
  | OForce i => let (c1, v) := rank_world c i true in (c1, VNat v)
  | OAll => let (c1, vs) := rank_many c (seq 0 (length (worlds n))) in (c1, VTable vs)
  | OFrank f => let (c1, v) := frank_z c f in (c1, VOpt v)
  | OAccept q =>
      let (c1, v) := frank_z c (FAnd (cante q) (ccons q)) in
      let (c2, m) := frank_z c1 (FAnd (cante q) (FNot (ccons q))) in
      (c2, VBool (match v, m with None, _ => false | Some _, None => true | Some a, Some b => a <? b end)) end.
Fixpoint zrun (c:cache) (ops:list zop) : list (cache * zout) :=
  match ops with [] => [] | o::r => let (c1, v) := zstep c o in (c1, v) :: zrun c1 r end.
Definition cache0 : cache := map (fun _ => None) (worlds n).
End Z.
