From InfOCF Require Import Core Tol TolExt SysZ Kz Form Model Spec Diag Ocf ThmZocf.
From Coq Require Import Permutation.
(* C16, facts: the ranking object of a base with facts is that of the base augmented by (Bottom | not phi); such a
   conditional can never be verified, so it always lands in the infinity layer, and every world violating a fact
   falsifies it and receives the top rank (one above all finite ranks). *)
Section ZF.
Variable n : nat.
Notation W := (worlds n).

(* a conditional whose consequent is Bottom is verified by no world *)
Lemma fact_never_verified k phi w : ver (fact_cond k phi) w = false.
Proof. unfold ver, fact_cond. simpl. apply andb_false_r. Qed.
Lemma fact_falsified k phi w : eval w phi = false -> fal (fact_cond k phi) w = true.
Proof. intros H. unfold fal, fact_cond. simpl. rewrite H. reflexivity. Qed.

Lemma tolerated_needs_ver (D:list (acond world)) c : tolerated world W D c = true -> exists w, cver world c w = true.
Proof. unfold tolerated. intros H. apply existsb_exists in H as [w [_ H]]. apply andb_true_iff in H as [H _]. eauto. Qed.

(* no layer of a maximal tolerance partition contains a never-verified conditional *)
Lemma mtp_layers_verified Cinf : forall P c, is_mtp_rel world W Cinf P -> In c (concat P) -> exists w, cver world c w = true.
Proof. induction P as [|L P IH]; intros c Hm Hc; simpl in *; [contradiction|].
  destruct Hm as [_ [Ht [_ Hm]]]. apply in_app_or in Hc as [Hc|Hc]; [|eauto].
  eapply tolerated_needs_ver. apply Ht. exact Hc. Qed.

Lemma fact_conds_in k facts phi : In phi facts -> exists j, In (fact_cond j phi) (fact_conds k facts).
Proof. revert k. induction facts as [|f r IH]; intros k H; simpl in *; [contradiction|]. destruct H as [<-|H].
  - exists (S k). now left.
  - destruct (IH (S k) H) as [j Hj]. exists j. now right. Qed.

Theorem fact_violation_top_rank D facts R w phi :
  part_ext n (augment D facts) = Some R -> In phi facts -> eval w phi = false ->
  exists fin Cinf, R = fin ++ [Cinf] /\ zrank_of R w = S (length fin) /\ (forall u, kz world fin u <= length fin).
Proof. intros HR Hphi Hw. unfold part_ext in HR.
  destruct (ext_sound world W (worlds_inhabited n) _ _ _ HR) as [fin [Cinf [-> [Hm [Hp _]]]]].
  exists fin, Cinf. split; [reflexivity|]. split; [|intros u; apply finite_ranks_below_top].
  destruct (fact_conds_in (list_max (map ckey D)) facts phi Hphi) as [j Hj].
  assert (Hin: In (ac (fact_cond j phi)) (map ac (augment D facts))).
  { apply in_map. unfold augment. apply in_or_app. now right. }
  assert (Hin2: In (ac (fact_cond j phi)) (concat fin ++ Cinf)).
  { eapply Permutation_in; [apply Permutation_sym; exact Hp|exact Hin]. }
  apply in_app_or in Hin2 as [Hf|Hc].
  - destruct (mtp_layers_verified Cinf fin _ Hm Hf) as [u Hu]. simpl in Hu. rewrite fact_never_verified in Hu. discriminate.
  - rewrite zrank_of_ext. destruct (nofals world Cinf w) eqn:E; [|reflexivity].
    rewrite nofals_in in E. specialize (E _ Hc). simpl in E. rewrite fact_falsified in E by exact Hw. discriminate.
Qed.

(* the object's construction: with facts and the default mode (extended), the same statement about zocf_partition *)
Corollary zocf_fact_violation_top_rank D facts R w phi :
  zocf_partition n None facts D = Some R -> In phi facts -> eval w phi = false ->
  exists fin Cinf, R = fin ++ [Cinf] /\ zrank_of R w = S (length fin) /\ (forall u, kz world fin u <= length fin).
Proof. intros HR Hphi Hw. unfold zocf_partition, zocf_mode in HR.
  destruct facts as [|f r]; [contradiction|]. simpl in HR. eapply fact_violation_top_rank; eauto. Qed.
End ZF.
