From InfOCF Require Import Core Tol TolExt SysZ Kz Form Model Spec Diag Ocf ThmZocf.
From Coq Require Import Permutation.
(* C16, facts: the ranking object of a base with facts is that of the base augmented by (Bottom | not phi); such a
   conditional can never be verified, so it always lands in the infinity layer, and every world violating a fact
   falsifies it and receives the top rank (one above all finite ranks). *)
Section ZF.
Variable n : nat.
Notation W := (worlds n).

(* a conditional whose consequent is Bottom is verified by no world *)
Lemma fact_never_verified k phi w : ver (fact_cond k phi) w = false.
Proof. unfold ver, fact_cond. simpl. apply andb_false_r. Qed.
Lemma fact_falsified k phi w : eval w phi = false -> fal (fact_cond k phi) w = true.
Proof. intros H. unfold fal, fact_cond. simpl. rewrite H. reflexivity. Qed.

Lemma tolerated_needs_ver (D:list (acond world)) c : tolerated world W D c = true -> exists w, cver world c w = true.
Proof. unfold tolerated. intros H. apply existsb_exists in H as [w [_ H]]. apply andb_true_iff in H as [H _]. eauto. Qed.

(* no layer of a maximal tolerance partition contains a never-verified conditional *)
Lemma mtp_layers_verified Cinf : forall P c, is_mtp_rel world W Cinf P -> In c (concat P) -> exists w, cver world c w = true.
Proof. induction P as [|L P IH]; intros c Hm Hc; simpl in *; [contradiction|].
  destruct Hm as [_ [Ht [_ Hm]]]. apply in_app_or in Hc as [Hc|Hc]; [|eauto].
  eapply tolerated_needs_ver. apply Ht. exact Hc. Qed.

Lemma fact_conds_in k facts phi : In phi facts -> exists j, In (fact_cond j phi) (fact_conds k facts).
Proof. revert k. induction facts as [|f r IH]; intros k H; simpl in *; [contradiction|]. destruct H as [<-|H].
  - exists (S k). now left.
  - destruct (IH (S k) H) as [j Hj]. exists j. now right. Qed.

Theorem fact_violation_top_rank D facts R w phi :
  part_ext n (augment D facts) = Some R -> In phi facts -> eval w phi = false ->
  exists fin Cinf, R = fin ++ [Cinf] /\ zrank_of R w = S (length fin) /\ (forall u, kz world fin u <= length fin).
Proof. intros HR Hphi Hw. unfold part_ext in HR.
  destruct (ext_sound world W (worlds_inhabited n) _ _ _ HR) as [fin [Cinf [-> [Hm [Hp _]]]]].
  exists fin, Cinf. split; [reflexivity|]. split; [|intros u; apply finite_ranks_below_top].
  destruct (fact_conds_in (list_max (map ckey D)) facts phi Hphi) as [j Hj].
  assert (Hin: In (ac (fact_cond j phi)) (map ac (augment D facts))).
  { apply in_map. unfold augment. apply in_or_app. now right. }
  assert (Hin2: In (ac (fact_cond j phi)) (concat fin ++ Cinf)).
  { eapply Permutation_in; [apply Permutation_sym; exact Hp|exact Hin]. }
  apply in_app_or in Hin2 as [Hf|Hc].
  - destruct (mtp_layers_verified Cinf fin _ Hm Hf) as [u Hu]. simpl in Hu. rewrite fact_never_verified in Hu. discriminate.
  - rewrite zrank_of_ext. destruct (nofals world Cinf w) eqn:E; [|reflexivity].
    rewrite nofals_in in E. specialize (E _ Hc). simpl in E. rewrite fact_falsified in E by exact Hw. discriminate.
Qed.

(* the object's construction: with facts and the default mode (extended), the same statement about zocf_partition *)
Corollary zocf_fact_violation_top_rank D facts R w phi :
  zocf_partition n None facts D = Some R -> In phi facts -> eval w phi = false ->
  exists fin Cinf, R = fin ++ [Cinf] /\ zrank_of R w = S (length fin) /\ (forall u, kz world fin u <= length fin).
Proof. intros HR Hphi Hw. unfold zocf_partition, zocf_mode in HR.
  destruct facts as [|f r]; [contradiction|]. simpl in HR. eapply fact_violation_top_rank; eauto. Qed.

(* conversely the worlds of finite rank satisfy every fact, and a jointly unsatisfiable fact list is refused: the
   infinity layer must be spared by some world, which then satisfies all facts *)
Lemma fact_in_infinity_layer D facts fin Cinf phi :
  part_ext n (augment D facts) = Some (fin ++ [Cinf]) -> In phi facts -> exists j, In (ac (fact_cond j phi)) Cinf.
Proof. intros HR Hphi. unfold part_ext in HR.
  destruct (ext_sound world W (worlds_inhabited n) _ _ _ HR) as [fin' [Cinf' [E [Hm [Hp _]]]]].
  apply app_inj_tail in E as [<- <-].
  destruct (fact_conds_in (list_max (map ckey D)) facts phi Hphi) as [j Hj]. exists j.
  assert (Hin: In (ac (fact_cond j phi)) (concat fin ++ Cinf)).
  { eapply Permutation_in; [apply Permutation_sym; exact Hp|]. apply in_map. unfold augment. apply in_or_app. now right. }
  apply in_app_or in Hin as [Hf|Hc]; [|exact Hc].
  destruct (mtp_layers_verified Cinf fin _ Hm Hf) as [u Hu]. simpl in Hu. rewrite fact_never_verified in Hu. discriminate. Qed.

Theorem finite_rank_satisfies_facts D facts fin Cinf w :
  part_ext n (augment D facts) = Some (fin ++ [Cinf]) -> zrank_of (fin ++ [Cinf]) w <= length fin -> forallb (eval w) facts = true.
Proof. intros HR Hr. apply forallb_forall. intros phi Hphi. destruct (eval w phi) eqn:E; [reflexivity|exfalso].
  destruct (fact_in_infinity_layer _ _ _ _ _ HR Hphi) as [j Hj].
  rewrite zrank_of_ext in Hr. destruct (nofals world Cinf w) eqn:EN; [|lia].
  rewrite nofals_in in EN. specialize (EN _ Hj). simpl in EN. rewrite fact_falsified in EN by exact E. discriminate. Qed.

Theorem unsat_facts_refused D facts : facts_sat n facts = false -> part_ext n (augment D facts) = None.
Proof. intros Hu. destruct (part_ext n (augment D facts)) as [R|] eqn:HR; [exfalso|reflexivity].
  pose proof HR as HR0. unfold part_ext in HR0.
  destruct (ext_sound world W (worlds_inhabited n) _ _ _ HR0) as [fin [Cinf [-> [_ [_ [_ [w [Hw Hn]]]]]]]].
  assert (forallb (eval w) facts = true).
  { eapply finite_rank_satisfies_facts; [exact HR|]. rewrite zrank_of_ext, Hn. apply finite_ranks_below_top. }
  unfold facts_sat in Hu. assert (existsb (fun w => forallb (eval w) facts) W = true); [|congruence].
  apply existsb_exists. eauto. Qed.
Corollary zocf_unsat_facts_refused D facts : facts <> [] -> facts_sat n facts = false -> zocf_partition n None facts D = None.
Proof. intros Hne Hu. unfold zocf_partition, zocf_mode. destruct facts; [congruence|]. simpl. apply unsat_facts_refused. exact Hu. Qed.
End ZF.

(* extended mode: the top rank goes to exactly the infeasible worlds *)
Theorem top_rank_iff_infeasible fin Cinf w : zrank_of (fin ++ [Cinf]) w = S (length fin) <-> nofals world Cinf w = false.
Proof. rewrite zrank_of_ext. destruct (nofals world Cinf w); split; intros H; try reflexivity; try discriminate.
  pose proof (finite_ranks_below_top fin w). lia. Qed.

(* with facts, the object's acceptance verdict is the extended System Z operator's answer on the augmented base *)
From InfOCF Require Import ThmOps ThmTop ThmZocfExt.
Theorem zocf_facts_acceptance_is_operator n D facts fin Cinf q :
  facts <> [] -> zocf_partition n None facts D = Some (fin ++ [Cinf]) ->
  existsb (ante q) (Wf (worlds n) (fin ++ [Cinf])) = true ->
  infer n SysZ true (augment D facts) q = Ans (obj_accept n fin Cinf q).
Proof. intros Hne HR HA. unfold zocf_partition, zocf_mode in HR. destruct facts as [|f r]; [congruence|]. simpl in HR.
  assert (HD: augment D (f :: r) <> []).
  { unfold augment. simpl. intros E. apply app_eq_nil in E as [_ E]. discriminate. }
  rewrite (infer_z_ext n _ q _ HD HR). f_equal. symmetry. apply object_accept_ext. exact HA. Qed.

(* strict mode: the object of a strongly consistent base accepts every conditional of the base *)
From Coq Require Import Permutation.
Theorem object_accepts_strict_base n D P c : part_strict n D = Some P -> In c D -> obj_accept n P [] c = true.
Proof. intros HP Hc. pose proof HP as HP'. apply loop_sound in HP' as [_ Hperm].
  eapply object_accepts_finite_layers; [apply ext_of_strict; exact HP|].
  eapply Permutation_in; [apply Permutation_sym; exact Hperm|]. apply in_map. exact Hc. Qed.
