From InfOCF Require Import Core Tol Form Parse Lexer.
(* C10: the text representation of a conditional (the concatenated token images) lexes back to exactly the tokens it was
   built from, provided no two word-like tokens (identifiers, keywords) are adjacent and the identifiers are well formed -
   which holds for every token list the lexer produces and the formula grammar accepts. *)
Definition wordy (t:ltok) : bool := match t with LId _ | LSig | LCond => true | _ => false end.
Definition valid_name (nm:list nat) : bool :=
  match nm with c :: _ => is_letter c && forallb is_idchar nm && negb (eqlist nm kw_signature) && negb (eqlist nm kw_conditionals) | [] => false end.
Definition tok_ok (t:ltok) : bool := match t with LId nm => valid_name nm | _ => true end.
Fixpoint wf (ts:list ltok) : bool :=
  match ts with [] => true | t :: r => tok_ok t && negb (wordy t && match r with u :: _ => wordy u | [] => false end) && wf r end.

Lemma take_id_app nm rest : forallb is_idchar nm = true -> match rest with [] => True | c :: _ => is_idchar c = false end ->
  take_id (nm ++ rest) = (nm, rest).
Proof. induction nm as [|c nm IH]; intros H Hr; cbn [app].
  - destruct rest as [|c r]; [reflexivity|]. cbn [take_id]. rewrite Hr. reflexivity.
  - cbn [forallb] in H. apply andb_true_iff in H as [H1 H2]. cbn [take_id]. rewrite H1, (IH H2 Hr). reflexivity. Qed.
Lemma eqlist_refl l : eqlist l l = true.
Proof. induction l as [|x l IH]; cbn [eqlist]; auto. rewrite Nat.eqb_refl, IH. reflexivity. Qed.

Ltac not_code H k := let E := fresh "E" in destruct (Nat.eqb _ k) eqn:E; [apply Nat.eqb_eq in E; subst; vm_compute in H; discriminate|].
Lemma lex_letter n c r : is_letter c = true ->
  lex (S n) (c :: r) = (let (name, rest) := take_id (c :: r) in
     let t := if eqlist name kw_signature then LSig else if eqlist name kw_conditionals then LCond else LId name in
     option_map (cons t) (lex n rest)).
Proof. intros H. cbn [lex].
  assert (E32: c =? 32 = false) by (destruct (c =? 32) eqn:E; auto; apply Nat.eqb_eq in E; subst; vm_compute in H; discriminate).
  assert (E9: c =? 9 = false) by (destruct (c =? 9) eqn:E; auto; apply Nat.eqb_eq in E; subst; vm_compute in H; discriminate).
  assert (E13: c =? 13 = false) by (destruct (c =? 13) eqn:E; auto; apply Nat.eqb_eq in E; subst; vm_compute in H; discriminate).
  assert (E10: c =? 10 = false) by (destruct (c =? 10) eqn:E; auto; apply Nat.eqb_eq in E; subst; vm_compute in H; discriminate).
  assert (E47: c =? 47 = false) by (destruct (c =? 47) eqn:E; auto; apply Nat.eqb_eq in E; subst; vm_compute in H; discriminate).
  assert (E44: c =? 44 = false) by (destruct (c =? 44) eqn:E; auto; apply Nat.eqb_eq in E; subst; vm_compute in H; discriminate).
  assert (E123: c =? 123 = false) by (destruct (c =? 123) eqn:E; auto; apply Nat.eqb_eq in E; subst; vm_compute in H; discriminate).
  assert (E125: c =? 125 = false) by (destruct (c =? 125) eqn:E; auto; apply Nat.eqb_eq in E; subst; vm_compute in H; discriminate).
  assert (E40: c =? 40 = false) by (destruct (c =? 40) eqn:E; auto; apply Nat.eqb_eq in E; subst; vm_compute in H; discriminate).
  assert (E124: c =? 124 = false) by (destruct (c =? 124) eqn:E; auto; apply Nat.eqb_eq in E; subst; vm_compute in H; discriminate).
  assert (E41: c =? 41 = false) by (destruct (c =? 41) eqn:E; auto; apply Nat.eqb_eq in E; subst; vm_compute in H; discriminate).
  assert (E33: c =? 33 = false) by (destruct (c =? 33) eqn:E; auto; apply Nat.eqb_eq in E; subst; vm_compute in H; discriminate).
  assert (E59: c =? 59 = false) by (destruct (c =? 59) eqn:E; auto; apply Nat.eqb_eq in E; subst; vm_compute in H; discriminate).
  rewrite E32, E9, E13, E10, E47, E44, E123, E125, E40, E124, E41, E33, E59, H. cbn [orb]. reflexivity. Qed.

(* the first character of the image of a non-wordy token is not an identifier character *)
Lemma image_head_not_id t : wordy t = false -> match image t with [] => True | c :: _ => is_idchar c = false end.
Proof. destruct t; cbn [wordy]; intros H; try discriminate; vm_compute; reflexivity. Qed.
Lemma rest_head ts : match ts with u :: _ => wordy u | [] => false end = false ->
  match flat_map image ts with [] => True | c :: _ => is_idchar c = false end.
Proof. destruct ts as [|u r]; cbn [flat_map]; intros H; [exact I|].
  pose proof (image_head_not_id u H) as Hu. destruct u; cbn [wordy] in H; try discriminate; cbn [image app] in *; exact Hu. Qed.

Theorem lex_image : forall ts, wf ts = true -> forall fuel, length ts < fuel -> lex fuel (flat_map image ts) = Some ts.
Proof. induction ts as [|t r IH]; intros Hwf fuel Hf.
  - destruct fuel; [lia|reflexivity].
  - cbn [wf] in Hwf. apply andb_true_iff in Hwf as [Hwf Hr]. apply andb_true_iff in Hwf as [Hok Hadj]. apply negb_true_iff in Hadj.
    destruct fuel as [|n]; [lia|]. cbn [length] in Hf. assert (Hn: length r < n) by lia. specialize (IH Hr n Hn).
    cbn [flat_map].
    destruct t; cbn [wordy andb] in Hadj; cbn [image app];
      try (cbn [lex Nat.eqb orb]; rewrite IH; reflexivity).
    + (* signature *) pose proof (rest_head r Hadj) as Hh.
      change (kw_signature ++ flat_map image r) with (115 :: (tl kw_signature ++ flat_map image r)).
      rewrite lex_letter by reflexivity. change (115 :: (tl kw_signature ++ flat_map image r)) with (kw_signature ++ flat_map image r).
      rewrite take_id_app; [|reflexivity|exact Hh]. rewrite IH. reflexivity.
    + (* conditionals *) pose proof (rest_head r Hadj) as Hh.
      change (kw_conditionals ++ flat_map image r) with (99 :: (tl kw_conditionals ++ flat_map image r)).
      rewrite lex_letter by reflexivity. change (99 :: (tl kw_conditionals ++ flat_map image r)) with (kw_conditionals ++ flat_map image r).
      rewrite take_id_app; [|reflexivity|exact Hh]. rewrite IH. reflexivity.
    + (* identifier *) pose proof (rest_head r Hadj) as Hh. cbn [tok_ok] in Hok. unfold valid_name in Hok.
      destruct name as [|c nm]; [discriminate|].
      apply andb_true_iff in Hok as [Hok Hk2]. apply andb_true_iff in Hok as [Hok Hk1]. apply andb_true_iff in Hok as [Hl Hid].
      apply negb_true_iff in Hk1. apply negb_true_iff in Hk2.
      cbn [app]. rewrite (lex_letter n c (nm ++ flat_map image r) Hl).
      change (c :: nm ++ flat_map image r) with ((c :: nm) ++ flat_map image r).
      rewrite take_id_app; [|exact Hid|exact Hh]. rewrite Hk1, Hk2, IH. reflexivity. Qed.

Lemma image_len ts : wf ts = true -> length ts <= length (flat_map image ts).
Proof. induction ts as [|t r IH]; intros H; cbn [flat_map length]; [lia|]. cbn [wf] in H.
  apply andb_true_iff in H as [H Hr]. apply andb_true_iff in H as [Hok _]. rewrite app_length. specialize (IH Hr).
  assert (1 <= length (image t)).
  { destruct t; cbn [image length kw_signature kw_conditionals]; try lia. cbn [tok_ok] in Hok. destruct name; [discriminate|]. cbn [length]. lia. }
  lia. Qed.
Corollary lexer_image ts : wf ts = true -> lexer (flat_map image ts) = Some ts.
Proof. intros H. unfold lexer. apply lex_image; auto. pose proof (image_len ts H). lia. Qed.

(* ---- what the lexer produces is well formed token by token ---- *)
Lemma take_id_idchars cs : forallb is_idchar (fst (take_id cs)) = true.
Proof. induction cs as [|c r IH]; cbn [take_id]; [reflexivity|]. destruct (is_idchar c) eqn:E; [|reflexivity].
  destruct (take_id r) as [a b]. cbn [fst forallb] in *. rewrite E, IH. reflexivity. Qed.
Lemma take_id_head c r : is_idchar c = true -> exists a, fst (take_id (c :: r)) = c :: a.
Proof. intros H. cbn [take_id]. rewrite H. destruct (take_id r) as [a b]. exists a. reflexivity. Qed.
Lemma letter_idchar c : is_letter c = true -> is_idchar c = true.
Proof. intros H. unfold is_idchar. rewrite H. reflexivity. Qed.
Lemma opt_cons_ok t o ts : tok_ok t = true -> (forall ts', o = Some ts' -> forallb tok_ok ts' = true) ->
  option_map (cons t) o = Some ts -> forallb tok_ok ts = true.
Proof. intros Ht Ho H. destruct o as [ts'|]; [|discriminate]. injection H as <-. cbn [forallb]. rewrite Ht, (Ho ts' eq_refl). reflexivity. Qed.

Theorem lex_tok_ok : forall fuel cs ts, lex fuel cs = Some ts -> forallb tok_ok ts = true.
Proof. induction fuel as [|n IH]; intros cs ts H; [discriminate|]. destruct cs as [|c r]; [injection H as <-; reflexivity|].
  cbn [lex] in H.
  destruct ((c =? 32) || (c =? 9)); [eapply IH; eauto|].
  destruct (c =? 13). { destruct r as [|c' r']; [|destruct (c' =? 10) eqn:E10]. all: try (eapply opt_cons_ok; [| |exact H]; [reflexivity|intros; eapply IH; eauto]).
    - destruct c' as [|[|[|[|[|[|[|[|[|[|[|c']]]]]]]]]]]; try (eapply opt_cons_ok; [| |exact H]; [reflexivity|intros; eapply IH; eauto]).
    - destruct c' as [|[|[|[|[|[|[|[|[|[|[|c']]]]]]]]]]]; try discriminate; try (eapply opt_cons_ok; [| |exact H]; [reflexivity|intros; eapply IH; eauto]). }
  destruct (c =? 10); [eapply opt_cons_ok; [| |exact H]; [reflexivity|intros; eapply IH; eauto]|].
  destruct (c =? 47).
  { destruct r as [|c' r']; [discriminate|].
    destruct (Nat.eq_dec c' 47) as [->|N47]; [eapply IH; eauto|].
    destruct (Nat.eq_dec c' 42) as [->|N42]; [destruct (skip_block r'); [eapply IH; eauto|discriminate]|].
    exfalso. clear -H N47 N42. do 48 (destruct c' as [|c']; [try discriminate; try congruence|]). discriminate. }
  destruct (c =? 44); [eapply opt_cons_ok; [| |exact H]; [reflexivity|intros; eapply IH; eauto]|].
  destruct (c =? 123); [eapply opt_cons_ok; [| |exact H]; [reflexivity|intros; eapply IH; eauto]|].
  destruct (c =? 125); [eapply opt_cons_ok; [| |exact H]; [reflexivity|intros; eapply IH; eauto]|].
  destruct (c =? 40); [eapply opt_cons_ok; [| |exact H]; [reflexivity|intros; eapply IH; eauto]|].
  destruct (c =? 124); [eapply opt_cons_ok; [| |exact H]; [reflexivity|intros; eapply IH; eauto]|].
  destruct (c =? 41); [eapply opt_cons_ok; [| |exact H]; [reflexivity|intros; eapply IH; eauto]|].
  destruct (c =? 33); [eapply opt_cons_ok; [| |exact H]; [reflexivity|intros; eapply IH; eauto]|].
  destruct (c =? 59); [eapply opt_cons_ok; [| |exact H]; [reflexivity|intros; eapply IH; eauto]|].
  destruct (is_letter c) eqn:El; [|discriminate].
  pose proof (take_id_idchars (c :: r)) as Hid. destruct (take_id_head c r (letter_idchar c El)) as [a Ha].
  destruct (take_id (c :: r)) as [name rest] eqn:Et. cbn [fst] in Hid, Ha. subst name.
  eapply opt_cons_ok; [| |exact H]; [|intros; eapply IH; eauto].
  destruct (eqlist (c :: a) kw_signature) eqn:E1; [reflexivity|]. destruct (eqlist (c :: a) kw_conditionals) eqn:E2; [reflexivity|].
  cbn [tok_ok valid_name]. rewrite El, Hid, E1, E2. reflexivity. Qed.

(* ---- token lists the formula grammar accepts: no foreign token, never two atoms side by side ---- *)
Definition is_tid (t:tok) : bool := match t with TId _ => true | _ => false end.
Definition is_other (t:tok) : bool := match t with TOther => true | _ => false end.
Fixpoint noadj (ts:list tok) : bool :=
  match ts with [] => true | t :: r => negb (is_tid t && match r with u :: _ => is_tid u | [] => false end) && noadj r end.
Lemma noadj_app_op ts1 op ts2 : is_tid op = false -> noadj ts1 = true -> noadj ts2 = true -> noadj (ts1 ++ op :: ts2) = true.
Proof. intros Hop. induction ts1 as [|t r IH]; intros H1 H2; cbn [app noadj].
  - rewrite Hop, H2. reflexivity.
  - cbn [noadj] in H1. apply andb_true_iff in H1 as [Ha Hr]. rewrite (IH Hr H2), andb_true_r.
    destruct r as [|u r']; cbn [app]; [rewrite Hop, andb_false_r; reflexivity|exact Ha]. Qed.
Lemma noadj_snoc_op ts op : is_tid op = false -> noadj ts = true -> noadj (ts ++ [op]) = true.
Proof. intros Hop H. apply noadj_app_op; auto. Qed.
Lemma grammar_shape :
  (forall ts f, Gneg ts f -> noadj ts = true /\ existsb is_other ts = false) /\
  (forall ts f, Gconj ts f -> noadj ts = true /\ existsb is_other ts = false) /\
  (forall ts f, Gdisj ts f -> noadj ts = true /\ existsb is_other ts = false).
Proof. apply G_mutind.
  - intros a. split; reflexivity.
  - intros ts f _ [H1 H2]. split; [cbn [noadj is_tid andb negb]; exact H1|cbn [existsb is_other orb]; exact H2].
  - intros ts f _ [H1 H2]. split.
    + cbn [noadj is_tid andb negb]. apply noadj_snoc_op; auto.
    + cbn [existsb is_other orb]. rewrite existsb_app, H2. reflexivity.
  - intros ts f _ H. exact H.
  - intros ts1 f ts2 g _ [H1 H2] _ [H3 H4]. split; [apply noadj_app_op; auto|]. rewrite existsb_app. cbn [existsb is_other orb]. rewrite H2, H4. reflexivity.
  - intros ts f _ H. exact H.
  - intros ts1 f ts2 g _ [H1 H2] _ [H3 H4]. split; [apply noadj_app_op; auto|]. rewrite existsb_app. cbn [existsb is_other orb]. rewrite H2, H4. reflexivity. Qed.

(* lifting to lexer tokens *)
Lemma wf_of_shape tbl : forall ts, forallb tok_ok ts = true -> noadj (map (ftok_of tbl) ts) = true ->
  existsb is_other (map (ftok_of tbl) ts) = false -> wf ts = true.
Proof. induction ts as [|t r IH]; intros Hok Hn Ho; [reflexivity|]. cbn [forallb] in Hok. apply andb_true_iff in Hok as [Ht Hr].
  cbn [map noadj] in Hn. apply andb_true_iff in Hn as [Ha Hn]. cbn [map existsb] in Ho. apply orb_false_iff in Ho as [Ho1 Ho2].
  cbn [wf]. rewrite Ht, (IH Hr Hn Ho2), andb_true_r. cbn [andb].
  destruct t; cbn [wordy andb negb ftok_of is_other] in *; try reflexivity; try discriminate.
  destruct r as [|u r']; [reflexivity|]. cbn [map] in Ha, Ho2. cbn [existsb] in Ho2. apply orb_false_iff in Ho2 as [Hu _].
  destruct u; cbn [wordy ftok_of is_tid is_other andb negb] in *; try reflexivity; try discriminate. Qed.

(* the round trip: a token list (from the lexer) that the formula grammar accepts is re-obtained by lexing its text
   representation, and therefore parses to the same formula again *)
Theorem formula_text_roundtrip cs ts tbl f : lexer cs = Some ts -> Gdisj (map (ftok_of tbl) ts) f ->
  lexer (flat_map image ts) = Some ts /\ parse_formula (map (ftok_of tbl) ts) = Some f.
Proof. intros Hl HG. split; [|apply parse_complete; exact HG]. apply lexer_image.
  destruct (proj2 (proj2 grammar_shape) _ _ HG) as [H1 H2]. eapply wf_of_shape; eauto. unfold lexer in Hl. eapply lex_tok_ok; eauto. Qed.
(* the same for any contiguous part of the lexer's output (the consequent / antecedent tokens kept in a conditional) *)
Lemma forallb_app_l {A} (p:A->bool) l1 l2 : forallb p (l1 ++ l2) = true -> forallb p l1 = true.
Proof. rewrite forallb_app. intros H. apply andb_true_iff in H. tauto. Qed.
Lemma forallb_app_r {A} (p:A->bool) l1 l2 : forallb p (l1 ++ l2) = true -> forallb p l2 = true.
Proof. rewrite forallb_app. intros H. apply andb_true_iff in H. tauto. Qed.
Theorem part_text_roundtrip cs before part after tbl f : lexer cs = Some (before ++ part ++ after) -> Gdisj (map (ftok_of tbl) part) f ->
  lexer (flat_map image part) = Some part /\ parse_formula (map (ftok_of tbl) part) = Some f.
Proof. intros Hl HG. split; [|apply parse_complete; exact HG]. apply lexer_image.
  destruct (proj2 (proj2 grammar_shape) _ _ HG) as [H1 H2]. eapply wf_of_shape; eauto.
  unfold lexer in Hl. apply lex_tok_ok in Hl. apply forallb_app_r in Hl. apply forallb_app_l in Hl. exact Hl. Qed.
(* and for the whole conditional text "(" B "|" A ")" *)
Lemma wf_app_punct ts1 p ts2 : wordy p = false -> tok_ok p = true -> wf ts1 = true -> wf ts2 = true -> wf (ts1 ++ p :: ts2) = true.
Proof. intros Hw Hp. induction ts1 as [|t r IH]; intros H1 H2; cbn [app wf].
  - rewrite Hp, Hw, H2. reflexivity.
  - cbn [wf] in H1. apply andb_true_iff in H1 as [H1 Hr]. apply andb_true_iff in H1 as [Ht Ha]. rewrite Ht, (IH Hr H2), andb_true_r. cbn [andb].
    destruct r as [|u r']; cbn [app]; [rewrite Hw, andb_false_r; reflexivity|exact Ha]. Qed.
Theorem cond_text_roundtrip bt at_ : wf bt = true -> wf at_ = true ->
  lexer (cond_text bt at_) = Some (LLP :: bt ++ LBar :: at_ ++ [LRP]).
Proof. intros Hb Ha. unfold cond_text.
  replace ([40] ++ flat_map image bt ++ [124] ++ flat_map image at_ ++ [41]) with (flat_map image (LLP :: bt ++ LBar :: at_ ++ [LRP])).
  - apply lexer_image. change (LLP :: bt ++ LBar :: at_ ++ [LRP]) with ([] ++ LLP :: (bt ++ LBar :: (at_ ++ [LRP]))).
    apply wf_app_punct; auto. apply wf_app_punct; auto. apply wf_app_punct; auto.
  - cbn [flat_map image]. rewrite flat_map_app. cbn [flat_map image]. rewrite flat_map_app. cbn [flat_map image]. rewrite app_nil_r. reflexivity. Qed.
