From InfOCF Require Import Core Tol CInf SysZ PEnt Form Model CModel Thm06 ThmP.
(* C05: the compiled CSP (with the query constraint) is unsatisfiable iff every c-representation accepts the query. *)
Section C.
Variable n : nat.
Variable D : list cond.
Notation W := (worlds n).
Notation aD := (map ac D).

Lemma excl_aD : forall c w, In c aD -> cver world c w = true -> cfal world c w = false.
Proof. intros c w Hc. apply in_map_iff in Hc as [c0 [<- _]]. apply ver_fal_excl. Qed.

Lemma forallb_ext_in' {A} (f g:A->bool) l : (forall x, In x l -> f x = g x) -> forallb f l = forallb g l.
Proof. induction l as [|a l IH]; intros H; simpl; auto. rewrite (H a (or_introl eq_refl)), IH; auto. intros x Hx. apply H. now right. Qed.
Theorem csp_iff_crep eta : length eta = length D -> csp_b n D eta = crep_b n D eta.
Proof. intros Hl. unfold csp_b, crep_b. apply forallb_ext_in'. intros i Hi. apply in_seq in Hi.
  apply constraint_iff_accepts; [apply excl_aD|rewrite map_length; exact Hl|rewrite map_length; lia]. Qed.

Lemma dedup_minl (g:bv->nat) l : minl (map g (dedup l)) = minl (map g l).
Proof. apply minl_cofinal.
  - intros x Hx. apply dedup_in; auto.
  - intros x Hx. exists x. split; [apply dedup_in; auto|lia]. Qed.
Lemma q_min eta (phi:pred world) :
  minl (map (fun v => sumsel v eta) (minimal (fam world W (top world) (F world aD) phi))) = rk world W (ckappa D eta) phi.
Proof. rewrite min_over_minimal. unfold fam. rewrite dedup_minl. unfold rk. rewrite map_map. reflexivity. Qed.

Theorem qcon_is_not_accept eta q : qcon_b n D eta q = negb (qacc_b n D eta q).
Proof. unfold qcon_b, qacc_b, qvMin, qfMin. rewrite !q_min.
  destruct (rk world W (ckappa D eta) (ver q)) as [mv|]; destruct (rk world W (ckappa D eta) (fal q)) as [mf|]; try reflexivity.
  unfold lt_opt. destruct (Nat.leb_spec mf mv), (Nat.ltb_spec mv mf); try reflexivity; lia. Qed.

(* on a base with a falsifiable conditional: "CSP unsatisfiable" = skeptical inference over all c-representations *)
Theorem c_correct q : selffulfilling n D = false -> (c_infer_prop n D q <-> c_spec_prop n D q).
Proof. intros Hs. unfold c_infer_prop, c_spec_prop. split.
  - intros [_ Hno] eta Hl Hc. destruct (qacc_b n D eta q) eqn:E; auto. exfalso. apply Hno. exists eta.
    rewrite csp_iff_crep, qcon_is_not_accept, E by auto. auto.
  - intros H. split; auto. intros [eta [Hl [Hc Hq]]]. rewrite csp_iff_crep in Hc by auto.
    rewrite qcon_is_not_accept in Hq. rewrite (H eta Hl Hc) in Hq. discriminate. Qed.

(* self-fulfilling base (no conditional can be falsified): every world has rank 0 under every impact vector,
   so no query with a falsifying world is accepted - the code's "return False" agrees with the definition *)
Lemma sumsel_zero_cnt v eta : cnt v = 0 -> sumsel v eta = 0.
Proof. revert eta; induction v as [|b v IH]; intros [|e eta]; simpl; auto. destruct b; simpl; [lia|]. intros H. rewrite IH; auto. Qed.
Lemma self_kappa0 eta w : selffulfilling n D = true -> In w W -> ckappa D eta w = 0.
Proof. intros Hs Hw. unfold ckappa, kappa. apply sumsel_zero_cnt. unfold F. rewrite map_map.
  unfold selffulfilling in Hs. rewrite forallb_forall in Hs. induction D as [|c D' IH]; simpl; auto.
  assert (Hc: fal c w = false).
  { specialize (Hs c (or_introl eq_refl)). apply negb_true_iff in Hs. destruct (fal c w) eqn:E; auto.
    assert (existsb (fal c) W = true) by (apply existsb_exists; eauto). congruence. }
  cbn. rewrite Hc. cbn. apply IH. intros x Hx. apply Hs. now right. Qed.
Theorem self_rejects q eta : selffulfilling n D = true -> (exists w, In w W /\ fal q w = true) -> qacc_b n D eta q = false.
Proof. intros Hs [w' [Hw' Hf]]. unfold qacc_b.
  assert (Hr: forall phi, (exists u, In u W /\ phi u = true) -> rk world W (ckappa D eta) phi = Some 0).
  { intros phi [u [Hu Hp]]. unfold rk.
    assert (Hall: forall x, In x (map (ckappa D eta) (sel world W (top world) phi)) -> x = 0).
    { intros x Hx. apply in_map_iff in Hx as [z [<- Hz]]. apply sel_in in Hz as [Hz _]. apply self_kappa0; auto. }
    destruct (minl (map (ckappa D eta) (sel world W (top world) phi))) as [m|] eqn:E.
    - f_equal. apply Hall. eapply minl_in; eauto.
    - apply minl_none in E. apply map_eq_nil in E.
      assert (In u (sel world W (top world) phi)) by (apply sel_in; unfold top; auto). rewrite E in H. inversion H. }
  rewrite (Hr (fal q)) by eauto. destruct (rk world W (ckappa D eta) (ver q)) as [m|] eqn:E; [|reflexivity].
  assert (m = 0).
  { unfold rk in E. pose proof (minl_in _ _ E) as Hin. apply in_map_iff in Hin as [z [<- Hz]]. apply sel_in in Hz as [Hz _]. apply self_kappa0; auto. }
  subst. reflexivity. Qed.

(* p-entailment is contained in c-inference: every c-representation is a ranking model of D *)
Lemma crep_model eta : length eta = length D -> crep_b n D eta = true -> model world W (ckappa D eta) aD.
Proof. intros Hl Hc c Hin. apply In_nth with (d:=d0) in Hin as [i [Hi <-]]. rewrite map_length in Hi.
  unfold crep_b in Hc. rewrite forallb_forall in Hc. specialize (Hc i). rewrite in_seq in Hc. specialize (Hc ltac:(lia)).
  unfold accepts_i in Hc. unfold rk in Hc. apply lt_opt_minl_iff in Hc as [a [Ha Hall]]. apply in_map_iff in Ha as [w [<- Hw]].
  apply sel_in in Hw as [Hw [_ Hv]]. exists w. repeat split; auto. intros w' Hw' Hf. apply Hall. apply in_map. apply sel_in. unfold top. auto. Qed.
Theorem p_sub_c q : (exists w, In w W /\ fal q w = true) -> p_strict n D q = true -> c_spec_prop n D q.
Proof. intros Hnt Hp eta Hl Hc. apply (p_strict_rankings n D q Hnt) with (kappa:=ckappa D eta) in Hp; [|apply crep_model; auto].
  destruct Hp as [w [Hw [Hv Hall]]]. unfold qacc_b, rk. apply lt_opt_minl_iff. exists (ckappa D eta w). split.
  - apply in_map. apply sel_in. unfold top. auto.
  - intros b Hb. apply in_map_iff in Hb as [w' [<- Hw']]. apply sel_in in Hw' as [Hw' [_ Hf]]. apply Hall; auto. Qed.
End C.
