From InfOCF Require Import Core Tol Form Model PyLib TieLib.
From InfOCFGen Require Import SrcInf.
From Coq Require Import ZArith.
(* TIE: Inference.general_inference (gen/SrcInf.v) = the trivial-query short cut of the model around any operator body. *)

Section TieInf.
Variable n : nat.
(* Inference.general_inference around any operator body *)
Theorem tie_general_inference impl weakly q u1 u2 b : impl q weakly u2 = Return b ->
  py_general_inference n impl weakly q u1 u2 = Return (trivial n q || b).
Proof. intros Hb. unfold py_general_inference. cbv zeta.
  change (f_unsat n (cante q) || f_unsat n (FAnd (cante q) (FNot (ccons q)))) with (trivial n q).
  destruct (trivial n q); [reflexivity|]. rewrite Hb. reflexivity. Qed.

End TieInf.
