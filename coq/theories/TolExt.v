From InfOCF Require Import Core Tol.
From Coq Require Import Permutation.
(* C06/C07: extended (weakly) mode of consistency(): finite maximal layers ++ [infinity layer] *)
Section TolExt.
Variable world : Type.
Variable W : list world.
Hypothesis W_inhabited : W <> [].          (* worlds n is never empty *)
Notation acond := (acond world).
Notation tolerated := (tolerated world W).
Notation tol_loop := (tol_loop world W).
Notation tol_loop_ext := (tol_loop_ext world W).
Notation tolR := (tolR world W).
Notation tolC := (tolC world W).
Notation nofals := (nofals world).

Lemma ext_unfold n D : D <> [] -> tol_loop_ext (S n) D =
  match tolR D with
  | [] => if existsb (nofals D) W then Some [tolC D] else None
  | _ => match tol_loop_ext n (tolC D) with Some P => Some (tolR D :: P) | None => None end end.
Proof. destruct D; [congruence|reflexivity]. Qed.
Lemma filter_none_all {A} (p:A->bool) l : filter p l = [] -> filter (fun x => negb (p x)) l = l.
Proof. induction l as [|a l IH]; simpl; auto. destruct (p a); [discriminate|]. simpl. intros H. f_equal. auto. Qed.

Fixpoint is_mtp_rel (Cinf:list acond) (P:list (list acond)) : Prop :=
  match P with [] => True
  | L::P' => L <> [] /\ (forall c, In c L -> tolerated (L ++ concat P' ++ Cinf) c = true)
             /\ (forall c, In c (concat P' ++ Cinf) -> tolerated (L ++ concat P' ++ Cinf) c = false) /\ is_mtp_rel Cinf P' end.

Theorem ext_sound : forall fuel D R, tol_loop_ext fuel D = Some R ->
  exists P Cinf, R = P ++ [Cinf] /\ is_mtp_rel Cinf P /\ Permutation (concat P ++ Cinf) D
    /\ (forall c, In c Cinf -> tolerated Cinf c = false) /\ (exists w, In w W /\ nofals Cinf w = true).
Proof. induction fuel as [|n IH]; intros D R H.
  - destruct D; simpl in H; [|discriminate]. inversion H. exists [], []. simpl. repeat split; auto; try (intros ? []).
    destruct W as [|w0 ?]; [congruence|]. exists w0. split; [now left|reflexivity].
  - destruct D as [|d0 D0].
    { simpl in H. inversion H. exists [], []. simpl. repeat split; auto; try (intros ? []).
      destruct W as [|w0 ?]; [congruence|]. exists w0. split; [now left|reflexivity]. }
    remember (d0::D0) as D. rewrite ext_unfold in H by (subst; discriminate).
    destruct (tolR D) as [|r R0] eqn:ER.
    + destruct (existsb (nofals D) W) eqn:Ex; [|discriminate]. inversion H; subst R.
      assert (EC: tolC D = D) by (apply filter_none_all; exact ER). rewrite EC.
      exists [], D. simpl. repeat split; auto.
      * intros c Hc. destruct (tolerated D c) eqn:E; auto. assert (In c (tolR D)) by (apply filter_In; auto). rewrite ER in H0. inversion H0.
      * apply existsb_exists in Ex. exact Ex.
    + rewrite <- ER in *. destruct (tol_loop_ext n (tolC D)) as [R'|] eqn:EL; [|destruct (tolR D); discriminate].
      assert (R = tolR D :: R') by (destruct (tolR D); [discriminate|inversion H; auto]). subst R. clear H.
      destruct (IH _ _ EL) as [P [Cinf [-> [Hm [Hp [Hnt Hw]]]]]].
      exists (tolR D :: P), Cinf. split; [reflexivity|].
      assert (Hperm: Permutation (tolR D ++ concat P ++ Cinf) D).
      { eapply Permutation_trans; [apply Permutation_app_head; exact Hp|]. apply split_perm. }
      split; [|split; [simpl; rewrite <- app_assoc; exact Hperm|split; auto]].
      simpl. repeat split; auto.
      * rewrite ER; discriminate.
      * intros c Hc. apply filter_In in Hc as [_ Hc]. eapply tolerated_mono; [|exact Hc].
        intros d Hd. eapply Permutation_in; [exact Hperm|exact Hd].
      * intros c Hc. assert (In c (tolC D)) by (eapply Permutation_in; [exact Hp|exact Hc]).
        apply filter_In in H as [_ H]. apply negb_true_iff in H.
        destruct (tolerated (tolR D ++ concat P ++ Cinf) c) eqn:E; auto.
        assert (tolerated D c = true); [|congruence]. eapply tolerated_mono; [|exact E].
        intros d Hd. eapply Permutation_in; [apply Permutation_sym; exact Hperm|exact Hd].
Qed.

(* the loop fails only by rejecting: some remaining sub-base has no tolerated member and no world sparing it *)
Theorem ext_fail : forall fuel D, length D <= fuel -> tol_loop_ext fuel D = None ->
  exists C, C <> [] /\ (forall c, In c C -> In c D) /\ (forall c, In c C -> tolerated C c = false) /\ existsb (nofals C) W = false.
Proof. induction fuel as [|n IH]; intros D Hlen H.
  - destruct D; simpl in *; [discriminate|lia].
  - destruct D as [|d0 D0]; [simpl in H; discriminate|]. remember (d0::D0) as D.
    rewrite ext_unfold in H by (subst; discriminate).
    destruct (tolR D) as [|r R0] eqn:ER.
    + destruct (existsb (nofals D) W) eqn:Ex; [discriminate|].
      exists D. repeat split; auto; [subst; discriminate|].
      intros c Hc. destruct (tolerated D c) eqn:E; auto. assert (In c (tolR D)) by (apply filter_In; auto). rewrite ER in H0. inversion H0.
    + rewrite <- ER in H. destruct (tol_loop_ext n (tolC D)) as [P|] eqn:EL; [destruct (tolR D); discriminate|].
      destruct (IH (tolC D)) as [C [HC [Hsub [Hnt Hex]]]]; auto.
      * pose proof (split_len world D (tolerated D)) as Hs. unfold Tol.tolR in ER. rewrite ER in Hs. simpl in Hs. unfold Tol.tolC. lia.
      * exists C. repeat split; auto. intros c Hc. apply Hsub in Hc. apply filter_In in Hc as [? _]; auto.
Qed.

(* strict result = extended result with an empty infinity layer *)
Theorem ext_vs_strict : forall fuel D P, tol_loop fuel D = Some P -> tol_loop_ext fuel D = Some (P ++ [[]]).
Proof. induction fuel as [|n IH]; intros D P H.
  - destruct D; simpl in *; [inversion H; reflexivity|discriminate].
  - destruct D as [|d0 D0]; [simpl in *; inversion H; reflexivity|]. remember (d0::D0) as D.
    rewrite loop_unfold in H by (subst; discriminate). rewrite ext_unfold by (subst; discriminate).
    destruct (tolR D) as [|r R0] eqn:ER; [discriminate|]. rewrite <- ER in *.
    destruct (tol_loop n (tolC D)) as [P'|] eqn:EL; [|destruct (tolR D); discriminate].
    rewrite (IH _ _ EL). destruct (tolR D); [discriminate|]. inversion H; subst. reflexivity.
Qed.
End TolExt.
Print Assumptions ext_sound. Print Assumptions ext_fail. Print Assumptions ext_vs_strict.
