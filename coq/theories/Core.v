From Coq Require Export List Bool Arith Lia.
Export ListNotations.

(* bit-vectors = falsification patterns of one layer *)
Definition bv := list bool.
Fixpoint sub (a b:bv) : bool := match a,b with
  | [],[] => true | x::a', y::b' => implb x y && sub a' b' | _,_ => false end.
Fixpoint beq (a b:bv) : bool := match a,b with
  | [],[] => true | x::a', y::b' => Bool.eqb x y && beq a' b' | _,_ => false end.
Definition ssub a b := sub a b && negb (beq a b).
Fixpoint cnt (a:bv) : nat := match a with [] => 0 | x::a' => (if x then 1 else 0) + cnt a' end.

Lemma beq_eq a b : beq a b = true <-> a = b.
Proof. revert b; induction a as [|x a IH]; destruct b as [|y b]; simpl; split; try congruence; try discriminate; auto.
  - intros H. apply andb_true_iff in H as [H1 H2]. apply eqb_prop in H1. apply IH in H2. congruence.
  - intros H. inversion H; subst. rewrite eqb_reflx. simpl. apply IH. reflexivity. Qed.
Lemma beq_refl a : beq a a = true. Proof. apply beq_eq; reflexivity. Qed.
Lemma sub_refl a : sub a a = true.
Proof. induction a as [|x a IH]; simpl; auto. destruct x; simpl; auto. Qed.
Lemma sub_trans a b c : sub a b = true -> sub b c = true -> sub a c = true.
Proof. revert b c; induction a as [|x a IH]; destruct b as [|y b], c as [|z c]; simpl; try discriminate; auto.
  intros H1 H2. apply andb_true_iff in H1 as [H1 H1']. apply andb_true_iff in H2 as [H2 H2'].
  apply andb_true_iff; split; [destruct x,y,z; auto|eauto]. Qed.
Lemma sub_antisym a b : sub a b = true -> sub b a = true -> a = b.
Proof. revert b; induction a as [|x a IH]; destruct b as [|y b]; simpl; try discriminate; auto.
  intros H1 H2. apply andb_true_iff in H1 as [H1 H1']. apply andb_true_iff in H2 as [H2 H2'].
  f_equal; [destruct x,y; simpl in *; congruence|auto]. Qed.
Lemma sub_cnt a b : sub a b = true -> cnt a <= cnt b.
Proof. revert b; induction a as [|x a IH]; destruct b as [|y b]; simpl; try discriminate; auto.
  intros H. apply andb_true_iff in H as [H1 H2]. apply IH in H2. destruct x,y; simpl in *; try discriminate; lia. Qed.
Lemma ssub_cnt a b : ssub a b = true -> cnt a < cnt b.
Proof. unfold ssub. revert b; induction a as [|x a IH]; destruct b as [|y b]; simpl; try discriminate.
  intros H. apply andb_true_iff in H as [H1 H2]. apply andb_true_iff in H1 as [H1 H1'].
  destruct (beq a b) eqn:E.
  - apply beq_eq in E; subst. rewrite andb_true_r in H2. destruct x,y; simpl in *; try discriminate; lia.
  - assert (cnt a < cnt b) by (apply IH; rewrite H1', E; reflexivity). destruct x,y; simpl in *; try discriminate; lia.
Qed.
Lemma cnt0_sub a b : length a = length b -> cnt a = 0 -> sub a b = true.
Proof. revert b; induction a as [|x a IH]; destruct b as [|y b]; simpl; try discriminate; auto.
  intros Hl Hc. destruct x; [simpl in Hc; lia|]. simpl. apply IH; lia. Qed.

Definition minimal (fam:list bv) : list bv :=
  filter (fun x => negb (existsb (fun y => ssub y x) fam)) fam.
Lemma minimal_in fam x : In x (minimal fam) -> In x fam /\ forall y, In y fam -> ssub y x = false.
Proof. unfold minimal. intros H. apply filter_In in H as [H1 H2]. split; auto.
  intros y Hy. apply negb_true_iff in H2. destruct (ssub y x) eqn:E; auto.
  exfalso. assert (existsb (fun y => ssub y x) fam = true) by (apply existsb_exists; eauto). congruence. Qed.
Lemma minimal_below fam x : In x fam -> exists y, In y (minimal fam) /\ sub y x = true.
Proof. remember (cnt x) as n eqn:En. assert (Hc: cnt x <= n) by lia. clear En. revert x Hc.
  induction n as [|n IH]; intros x Hc Hx.
  - exists x. split; [|apply sub_refl]. apply filter_In. split; auto. apply negb_true_iff.
    destruct (existsb _ fam) eqn:E; auto. apply existsb_exists in E as [y [_ Hy]]. apply ssub_cnt in Hy. lia.
  - destruct (existsb (fun y => ssub y x) fam) eqn:E.
    + apply existsb_exists in E as [y [Hy Hs]]. pose proof (ssub_cnt _ _ Hs).
      destruct (IH y) as [z [Hz1 Hz2]]; [lia|auto|]. exists z. split; auto.
      eapply sub_trans; eauto. unfold ssub in Hs. apply andb_true_iff in Hs as [Hs _]. exact Hs.
    + exists x. split; [|apply sub_refl]. apply filter_In. split; auto. rewrite E. reflexivity. Qed.

(* option-nat ranks, None = infinity *)
Definition lt_opt (a b:option nat) : bool := match a,b with
  | Some x, Some y => x <? y | Some _, None => true | None, _ => false end.
Fixpoint minl (l:list nat) : option nat := match l with [] => None
  | x::l' => match minl l' with None => Some x | Some m => Some (Nat.min x m) end end.
Lemma minl_none l : minl l = None <-> l = [].
Proof. destruct l; simpl; [tauto|]. destruct (minl l); split; discriminate. Qed.
Lemma minl_le l m x : minl l = Some m -> In x l -> m <= x.
Proof. revert m; induction l as [|y l IH]; intros m Hm [].
  - subst. simpl in Hm. destruct (minl l); inversion Hm; lia.
  - simpl in Hm. destruct (minl l) eqn:E; [|apply minl_none in E; subst; inversion H].
    inversion Hm; subst. specialize (IH n eq_refl H). lia. Qed.
Lemma minl_in l m : minl l = Some m -> In m l.
Proof. revert m; induction l as [|y l IH]; intros m Hm; [discriminate|]. simpl in Hm.
  destruct (minl l) eqn:E; inversion Hm; subst; [|now left].
  destruct (Nat.min_dec y n) as [E'|E']; rewrite E'; [now left|right; auto]. Qed.

(* families are kept duplicate-free: the implementation enumerates each correction set once, and the
   executable model would otherwise recurse once per world instead of once per set *)
Fixpoint dedup (l:list bv) : list bv :=
  match l with [] => [] | x::r => let d := dedup r in if existsb (beq x) d then d else x :: d end.
Lemma dedup_in l x : In x (dedup l) <-> In x l.
Proof. induction l as [|a l IH]; simpl; [tauto|]. destruct (existsb (beq a) (dedup l)) eqn:E.
  - rewrite IH. split; auto. intros [<-|?]; auto. apply existsb_exists in E as [y [Hy Hb]]. apply beq_eq in Hb. subst y. apply IH; auto.
  - simpl. rewrite IH. tauto. Qed.

Section Worlds.
Variable world : Type.
Variable W : list world.
Definition pred := world -> bool.
Definition layer := world -> bv.
Definition sel (H phi:pred) : list world := filter (fun w => H w && phi w) W.
Lemma sel_in H phi w : In w (sel H phi) <-> In w W /\ H w = true /\ phi w = true.
Proof. unfold sel. rewrite filter_In, andb_true_iff. tauto. Qed.
Definition fam (H:pred) (F:layer) (phi:pred) : list bv := dedup (map F (sel H phi)).
Lemma fam_in H F phi x : In x (fam H F phi) <-> exists w, In w W /\ H w = true /\ phi w = true /\ F w = x.
Proof. unfold fam. rewrite dedup_in, in_map_iff. split.
  - intros [w [E Hw]]. apply sel_in in Hw as [? [? ?]]. eauto.
  - intros [w [Hw [H1 [H2 E]]]]. exists w. split; auto. apply sel_in. auto. Qed.
Definition top : pred := fun _ => true.
(* rank of a predicate under a world-ranking r *)
Definition rk (r:world->nat) (phi:pred) : option nat := minl (map r (sel top phi)).
End Worlds.
