From InfOCF Require Import Core Form PyLib PyStr PyTree.
From InfOCFGen Require Import SrcVisit.
From Coq Require Import ZArith String Lia.
Local Open Scope list_scope.
(* TIE: the formula methods of the parse-tree visitor GENERATED from parser/myVisitor.py (gen/SrcVisit.v: visitOr, visitAnd,
   visitNegation, visitParen, visitVar; the bookkeeping list sigcheck is left out) under ANTLR's dispatch - the labelled
   alternative of a node selects the method - map every parse tree of the formula rule to the formula it denotes: #Or to a
   disjunction, #And to a conjunction, #Negation to a negation, #Paren to its content, #Var to the constants for Top / Bottom
   and to the atom of that name otherwise.  (Which tree ANTLR builds for a text is the other half of C10: the model's parser
   and its correspondence check.) *)
Section Visit.
Variable n : nat.
Variable idx : string -> nat.                       (* the atom a name stands for *)
Definition name_index (s:string) : ctl Z unit unit := Return (Z.of_nat (idx s)).

Fixpoint visit (fuel:nat) (t:ptree) : ctl form unit unit :=
  match fuel with 0 => NoFuel | S f =>
    match t with
    | PVar _ => py_visitVar n name_index t
    | PNeg _ => py_visitNegation n (visit f) t
    | PAnd _ _ => py_visitAnd n (visit f) t
    | POr _ _ => py_visitOr n (visit f) t
    | PParen _ => py_visitParen n (visit f) t
    end end.
Fixpoint denote (t:ptree) : form :=
  match t with
  | PVar s => if String.eqb s "Top" then FTop else if String.eqb s "Bottom" then FBot else FVar (idx s)
  | PNeg x => FNot (denote x) | PAnd l r => FAnd (denote l) (denote r) | POr l r => FOr (denote l) (denote r) | PParen x => denote x end.
Fixpoint depth (t:ptree) : nat :=
  match t with PVar _ => 0 | PNeg x | PParen x => S (depth x) | PAnd l r | POr l r => S (Nat.max (depth l) (depth r)) end.

Theorem tie_visit t : forall fuel, depth t < fuel -> visit fuel t = Return (denote t).
Proof. induction t as [s|x IH|l IHl r IHr|l IHl r IHr|x IH]; intros [|f] Hf; try lia; cbn [visit depth denote] in *.
  - unfold py_visitVar. cbn [pt_atom_text cbind]. destruct (String.eqb s "Top"); cbn [cbind]; [reflexivity|].
    destruct (String.eqb s "Bottom"); cbn [cbind]; [reflexivity|]. unfold name_index. cbn [call]. rewrite Nat2Z.id. reflexivity.
  - unfold py_visitNegation. cbn [pt_formula cbind]. rewrite (IH f) by lia. reflexivity.
  - unfold py_visitAnd. cbn [pt_left pt_right cbind]. rewrite (IHl f), (IHr f) by lia. reflexivity.
  - unfold py_visitOr. cbn [pt_left pt_right cbind]. rewrite (IHl f), (IHr f) by lia. reflexivity.
  - unfold py_visitParen. cbn [pt_formula cbind]. rewrite (IH f) by lia. reflexivity. Qed.
End Visit.
