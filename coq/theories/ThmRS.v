From InfOCF Require Import Core Form Mcs Cnf.
(* C15: remove_supersets (stable sort by cardinality, then keep what has no kept subset) returns exactly the
   inclusion-minimal members, each once. *)
Lemma insert_by_in x l y : In y (insert_by x l) <-> y = x \/ In y l.
Proof. induction l as [|z l IH].
  - cbn. intuition.
  - cbn [insert_by]. destruct (cnt x <? cnt z).
    + cbn. intuition.
    + cbn [In]. rewrite IH. intuition. Qed.
Lemma sort_by_len_in l y : In y (sort_by_len l) <-> In y l.
Proof. unfold sort_by_len. rewrite (in_rev l y). induction (rev l) as [|a r IH]; cbn; [tauto|]. rewrite insert_by_in, IH. intuition. Qed.
Inductive csorted : list bv -> Prop :=
 | cs_nil : csorted []
 | cs_cons a l : (forall y, In y l -> cnt a <= cnt y) -> csorted l -> csorted (a :: l).
Lemma insert_by_sorted x l : csorted l -> csorted (insert_by x l).
Proof. induction 1 as [|a l Ha Hs IH]; [cbn; constructor; [intros ? []|constructor]|]. cbn [insert_by].
  destruct (cnt x <? cnt a) eqn:E.
  - apply Nat.ltb_lt in E. constructor; [|constructor; auto]. intros y [<-|Hy]; [lia|]. specialize (Ha y Hy). lia.
  - apply Nat.ltb_ge in E. constructor; auto. intros y Hy. apply insert_by_in in Hy as [->|Hy]; auto. Qed.
Lemma sort_by_len_sorted l : csorted (sort_by_len l).
Proof. unfold sort_by_len. induction (rev l) as [|a r IH]; cbn; [constructor|]. apply insert_by_sorted; auto. Qed.

Lemma rs_in : forall s acc x, In x (rs_filter s acc) -> In x acc \/ In x s.
Proof. induction s as [|a r IH]; intros acc x H; cbn in H; [left; apply in_rev; auto|].
  destruct (existsb (fun b => sub b a) acc); apply IH in H as [H|H]; auto; [right; now right|destruct H as [<-|H]; [right; now left|auto]|right; now right]. Qed.
Lemma rs_acc : forall s acc a, In a acc -> In a (rs_filter s acc).
Proof. induction s as [|x r IH]; intros acc a H; cbn; [apply -> in_rev; auto|].
  destruct (existsb (fun b => sub b x) acc); apply IH; auto. now right. Qed.
Lemma rs_acc' : forall s acc a, In a acc -> In a (rs_filter s acc).
Proof. exact rs_acc. Qed.
Lemma rs_covered : forall s acc y, In y s -> exists b, In b (rs_filter s acc) /\ sub b y = true.
Proof. induction s as [|a r IH]; intros acc y H; [inversion H|]. cbn. destruct (existsb (fun b => sub b a) acc) eqn:E.
  - destruct H as [<-|H]; [|apply IH; auto]. apply existsb_exists in E as [b [Hb Hs]]. exists b. split; auto. apply rs_acc; auto.
  - destruct H as [<-|H]; [|apply IH; auto]. exists a. split; [apply rs_acc; now left|apply sub_refl]. Qed.
Definition antichain (l:list bv) : Prop := forall a b, In a l -> In b l -> ssub a b = false.
Lemma rs_antichain : forall s acc, csorted s -> (forall a y, In a acc -> In y s -> cnt a <= cnt y) -> antichain acc -> NoDup acc ->
  antichain (rs_filter s acc) /\ NoDup (rs_filter s acc).
Proof. induction s as [|x r IH]; intros acc Hs Hle Ha Hn; cbn.
  - split; [intros a b Ha' Hb'; apply Ha; apply in_rev; auto|apply NoDup_rev; auto].
  - inversion Hs as [|? ? Hx Hr]; subst. destruct (existsb (fun b => sub b x) acc) eqn:E.
    + apply IH; [exact Hr| |exact Ha|exact Hn]. intros a y Ha' Hy. apply Hle; auto. now right.
    + apply IH; [exact Hr| | |].
      * intros a y [<-|Ha'] Hy; [apply Hx; auto|apply Hle; auto; now right].
      * intros a b [<-|Ha'] [<-|Hb'].
        -- unfold ssub. rewrite beq_refl, andb_false_r. reflexivity.
        -- destruct (ssub x b) eqn:Es; auto. apply ssub_cnt in Es. specialize (Hle b x Hb' (or_introl eq_refl)). lia.
        -- destruct (ssub a x) eqn:Es; auto. exfalso. unfold ssub in Es. apply andb_true_iff in Es as [Es _].
           assert (existsb (fun c => sub c x) acc = true) by (apply existsb_exists; eauto). congruence.
        -- apply Ha; auto.
      * constructor; auto. intros Hin. assert (existsb (fun c => sub c x) acc = true); [|congruence].
        apply existsb_exists. exists x. split; auto. apply sub_refl. Qed.

Theorem remove_supersets_minimal l x : In x (remove_supersets l) <-> In x (minimal l).
Proof. unfold remove_supersets. set (s := sort_by_len l).
  destruct (rs_antichain s [] (sort_by_len_sorted l) (fun a y (H:In a []) => match H with end) (fun a b (H:In a []) => match H with end) (NoDup_nil _)) as [Hanti _].
  split.
  - intros Hx. assert (Hxl: In x l).
    { apply rs_in in Hx as [[]|Hx]. apply sort_by_len_in; auto. }
    apply filter_In. split; auto. apply negb_true_iff. destruct (existsb (fun y => ssub y x) l) eqn:E; auto. exfalso.
    apply existsb_exists in E as [y [Hy Hs]]. destruct (rs_covered s [] y) as [b [Hb Hby]]; [apply sort_by_len_in; auto|].
    assert (ssub b x = true).
    { unfold ssub in *. apply andb_true_iff in Hs as [Hs1 Hs2]. apply andb_true_iff. split; [eapply sub_trans; eauto|].
      apply negb_true_iff. destruct (beq b x) eqn:Eb; auto. apply beq_eq in Eb. subst b.
      assert (y = x) by (apply sub_antisym; auto). subst. rewrite beq_refl in Hs2. discriminate. }
    rewrite (Hanti b x Hb Hx) in H. discriminate.
  - intros Hx. apply minimal_in in Hx as [Hxl Hmin]. destruct (rs_covered s [] x) as [b [Hb Hbx]]; [apply sort_by_len_in; auto|].
    assert (Hbl: In b l). { apply rs_in in Hb as [[]|Hb]. apply sort_by_len_in; auto. }
    destruct (beq b x) eqn:Eb; [apply beq_eq in Eb; subst; auto|]. exfalso.
    assert (ssub b x = true) by (unfold ssub; rewrite Hbx, Eb; reflexivity). rewrite (Hmin b Hbl) in H. discriminate. Qed.
Theorem remove_supersets_each_once l : NoDup (remove_supersets l).
Proof. unfold remove_supersets.
  apply (rs_antichain (sort_by_len l) [] (sort_by_len_sorted l) (fun a y (H:In a []) => match H with end) (fun a b (H:In a []) => match H with end) (NoDup_nil _)). Qed.
