From InfOCF Require Import Core Tol Form Model Spec Ocf Parse Lexer Crev Exec.
Require Extraction.
Require Import ExtrOcamlBasic.
Extraction Language OCaml.
Set Extraction Output Directory ".".
Extraction "model.ml" run_case run_diag run_faithful run_mcs run_cinf run_zocf frank accept marginalize conditionalize ranks2tpo tpo_back run_parse_formula run_parse_file run_parse_queries run_cond_text run_crev run_crep.
