(* Driver for the extracted Coq model: parses the line-oriented case format written by the
   harness and prints one canonical line per case.  Trusted only to transport data. *)
open Model

let rec nat_of_int i = if i <= 0 then O else S (nat_of_int (i - 1))
let rec int_of_nat = function O -> 0 | S k -> 1 + int_of_nat k

(* prefix formula tokens: T F v<i> ! & | *)
let rec parse_form toks =
  match toks with
  | [] -> failwith "formula: unexpected end"
  | "T" :: r -> (FTop, r)
  | "F" :: r -> (FBot, r)
  | "!" :: r -> let (f, r1) = parse_form r in (FNot f, r1)
  | "&" :: r -> let (f, r1) = parse_form r in let (g, r2) = parse_form r1 in (FAnd (f, g), r2)
  | "|" :: r -> let (f, r1) = parse_form r in let (g, r2) = parse_form r1 in (FOr (f, g), r2)
  | t :: r when String.length t > 1 && t.[0] = 'v' ->
      (FVar (nat_of_int (int_of_string (String.sub t 1 (String.length t - 1)))), r)
  | t :: _ -> failwith ("formula: bad token " ^ t)

let parse_cond toks =
  match toks with
  | k :: r ->
      let (b, r1) = parse_form r in
      (match r1 with
       | ";" :: r2 ->
           let (a, r3) = parse_form r2 in
           if r3 <> [] then failwith "cond: trailing tokens";
           { ckey = nat_of_int (int_of_string k); ccons = b; cante = a }
       | _ -> failwith "cond: missing ;")
  | [] -> failwith "cond: empty"

let split_ws s = List.filter (fun x -> x <> "") (String.split_on_char ' ' (String.trim s))

let res_char = function Ans true -> '1' | Ans false -> '0' | Refuse -> 'R'
let str_of_res l = String.init (List.length l) (fun i -> res_char (List.nth l i))
let str_of_part = function
  | None -> "N"
  | Some p ->
      "P" ^ String.concat "" (List.map (fun l -> "[" ^ String.concat "," (List.map (fun k -> string_of_int (int_of_nat k)) l) ^ "]") p)

let () =
  let cur_id = ref "" and cur_n = ref 0 and cur_w = ref false in
  let ds = ref [] and qs = ref [] and fs = ref [] and kind = ref "C" and cur_uf = ref false in
  let bound = ref 0 and wits = ref [] in
  let chars = ref [] and pmode = ref "f" in
  let cmops = ref [] and gams = ref [] in
  let etas = ref [] and front = ref [] in
  let str_of_keys l = String.concat "," (List.map (fun k -> string_of_int (int_of_nat k)) l) in
  let str_of_triples ts = String.concat ";" (List.map (fun ((r, a), j) -> string_of_int (int_of_nat r) ^ ":" ^ str_of_keys a ^ ":" ^ str_of_keys j) ts) in
  let str_of_comp (v, f) = String.concat " " (List.map (fun (k, ts) -> string_of_int (int_of_nat k) ^ "=" ^ str_of_triples ts) v) ^ "/" ^
                           String.concat " " (List.map (fun (k, ts) -> string_of_int (int_of_nat k) ^ "=" ^ str_of_triples ts) f) in
  let rec str_of_form = function FTop -> "T" | FBot -> "F" | FVar i -> "v" ^ string_of_int (int_of_nat i) | FNot f -> "! " ^ str_of_form f
    | FAnd (f, g) -> "& " ^ str_of_form f ^ " " ^ str_of_form g | FOr (f, g) -> "| " ^ str_of_form f ^ " " ^ str_of_form g in
  let str_of_name nm = String.concat "" (List.map (fun c -> String.make 1 (Char.chr (int_of_nat c))) nm) in
  let tbl = ref [] and rops = ref [] and zops = ref [] and zext = ref None in
  let bits s = List.init (String.length s) (fun i -> s.[i] = '1') in
  let str_of_world w = String.concat "" (List.map (fun b -> if b then "1" else "0") w) in
  let str_of_on = function None -> "-" | Some r -> string_of_int (int_of_nat r) in
  let str_of_table t = String.concat "," (List.map (fun (w, r) -> str_of_world w ^ ":" ^ str_of_on r) t) in
  let idx_of_bits s = let v = ref 0 in String.iter (fun c -> v := 2 * !v + (if c = '1' then 1 else 0)) s; !v in
  let amap = ref [] and hard = ref [] and cls = ref [] and grps = ref [] and curkey = ref (-1) and form = ref FTop in
  let parse_lits r = List.map (fun t -> let i = int_of_string t in (i > 0, nat_of_int (abs i - 1))) r in
  let flush_group () = if !curkey >= 0 then begin grps := (nat_of_int !curkey, List.rev !cls) :: !grps; cls := []; curkey := -1 end in
  let str_of_fam fam = String.concat "" (List.map (fun l -> "{" ^ String.concat "," (List.map (fun k -> string_of_int (int_of_nat k)) l) ^ "}") fam) in
  (try
     while true do
       let line = input_line stdin in
       match split_ws line with
       | [] -> ()
       | "C" :: id :: n :: w :: _ ->
           kind := "C"; cur_id := id; cur_n := int_of_string n; cur_w := (w = "1"); ds := []; qs := []
       | "G" :: id :: n :: w :: uf :: _ ->
           kind := "G"; cur_id := id; cur_n := int_of_string n; cur_w := (w = "1"); cur_uf := (uf = "1"); ds := []; fs := []
       | "I" :: id :: n :: b :: _ -> kind := "I"; cur_id := id; cur_n := int_of_string n; bound := int_of_string b; ds := []; qs := []; wits := []
       | "X" :: qi :: r -> wits := (nat_of_int (int_of_string qi), List.map (fun t -> nat_of_int (int_of_string t)) r) :: !wits
       | "Y" :: id :: n :: b :: _ -> kind := "Y"; cur_id := id; cur_n := int_of_string n; bound := int_of_string b; ds := []; qs := []; etas := []; front := []
       | "ET" :: r -> etas := List.map (fun t -> nat_of_int (int_of_string t)) r :: !etas
       | "FR" :: r -> front := List.map (fun t -> nat_of_int (int_of_string t)) r :: !front
       | "V" :: id :: n :: _ -> kind := "V"; cur_id := id; cur_n := int_of_string n; tbl := []; ds := []; cmops := []; gams := []
       | "NA" :: r -> cmops := CAdd (parse_cond r) :: !cmops
       | "NR" :: k :: _ -> cmops := CRemove (nat_of_int (int_of_string k)) :: !cmops
       | "GA" :: r ->
           (* G p k v ... m k v ... : gamma+ entries after p, gamma- entries after m *)
           let rec go mode gp gm = function
             | [] -> (List.rev gp, List.rev gm)
             | "p" :: rest -> go "p" gp gm rest
             | "m" :: rest -> go "m" gp gm rest
             | k :: v :: rest -> let e = (nat_of_int (int_of_string k), nat_of_int (int_of_string v)) in
                 if mode = "p" then go mode (e :: gp) gm rest else go mode gp (e :: gm) rest
             | _ -> failwith "G: odd" in
           gams := (go "p" [] [] r, ([], [])) :: !gams
       | "P" :: id :: m :: _ -> kind := "P"; cur_id := id; pmode := m; chars := []
       | "T" :: r -> chars := List.rev_append (List.map (fun t -> nat_of_int (int_of_string t)) r) !chars
       | "R" :: id :: n :: _ -> kind := "R"; cur_id := id; cur_n := int_of_string n; tbl := []; rops := []
       | "W" :: b :: r :: _ -> tbl := (bits b, (if r = "-" then None else Some (nat_of_int (int_of_string r)))) :: !tbl
       | "OF" :: r -> rops := ("F", r) :: !rops
       | "OA" :: r -> rops := ("A", r) :: !rops
       | "OM" :: r -> rops := ("M", r) :: !rops
       | "OC" :: r -> rops := ("C", r) :: !rops
       | "OT" :: r -> rops := ("T", r) :: !rops
       | "OU" :: r -> rops := ("U", r) :: !rops
       | "Z" :: id :: n :: e :: _ -> kind := "Z"; cur_id := id; cur_n := int_of_string n; ds := []; fs := []; zops := [];
           zext := (if e = "1" then Some true else if e = "0" then Some false else None)
       | "PR" :: b :: _ -> zops := ORank (nat_of_int (idx_of_bits b)) :: !zops
       | "PF" :: b :: _ -> zops := OForce (nat_of_int (idx_of_bits b)) :: !zops
       | "PA" :: _ -> zops := OAll :: !zops
       | "PQ" :: r -> let (f, rest) = parse_form r in if rest <> [] then failwith "PQ: trailing"; zops := OFrank f :: !zops
       | "PC" :: r -> zops := OAccept (parse_cond ("0" :: r)) :: !zops
       | "K" :: id :: n :: _ -> kind := "K"; cur_id := id; cur_n := int_of_string n; cls := []; amap := []
       | "M" :: id :: n :: _ -> kind := "M"; cur_id := id; cur_n := int_of_string n; cls := []; hard := []; grps := []; curkey := -1
       | "A" :: r -> amap := List.map (fun t -> nat_of_int (int_of_string t)) r
       | "O" :: r -> let (f, rest) = parse_form r in if rest <> [] then failwith "O: trailing"; form := f
       | "L" :: r -> cls := parse_lits r :: !cls
       | "H" :: r -> hard := parse_lits r :: !hard
       | "S" :: k :: _ -> flush_group (); curkey := int_of_string k
       | "F" :: r -> let (f, rest) = parse_form r in if rest <> [] then failwith "fact: trailing"; fs := f :: !fs
       | "D" :: r -> ds := parse_cond r :: !ds
       | "Q" :: r -> qs := parse_cond r :: !qs
       | "E" :: _ ->
           if !kind = "Y" then begin
             let ((rows, fchk), missing) = run_crep (nat_of_int !cur_n) (List.rev !ds) (List.rev !qs) (List.rev !etas) (List.rev !front) (nat_of_int !bound) in
             let bs l = String.concat "" (List.map (fun b -> if b then "1" else "0") l) in
             List.iteri (fun i (((c, p), ranks), accs) ->
               Printf.printf "%s\teta%d\t%s\t%s\t%s\t%s\n" !cur_id i (if c then "1" else "0") (if p then "1" else "0") (str_of_keys ranks) (bs accs)) rows;
             Printf.printf "%s\tfront\t%s\t%s\n" !cur_id (bs fchk) (String.concat ";" (List.map str_of_keys missing))
           end else if !kind = "V" then begin
             let pr = List.map (fun (w, r) -> (w, match r with Some x -> x | None -> O)) (List.rev !tbl) in
             let gl = List.map fst (List.rev !gams) in
             let (((alt, fast), ((regk, inc), incref)), checks) = run_crev (List.rev !ds) pr (List.rev !cmops) (List.map (fun g -> (g, g)) gl |> List.map (fun ((gp, gm), _) -> (gp, gm))) [] in
             Printf.printf "%s\talt\t%s\n" !cur_id (str_of_comp alt);
             Printf.printf "%s\tfast\t%s\n" !cur_id (str_of_comp fast);
             Printf.printf "%s\tinc\t%s\t%s\t%s\n" !cur_id (str_of_keys regk) (str_of_comp inc) (str_of_comp incref);
             List.iteri (fun i (ok, accs) -> Printf.printf "%s\tchk%d\t%s\t%s\n" !cur_id i (if ok then "1" else "0")
                            (String.concat "" (List.map (fun b -> if b then "1" else "0") accs))) checks
           end else if !kind = "P" then begin
             let cs = List.rev !chars in
             if !pmode = "f" then
               (match run_parse_formula cs with
                | None -> Printf.printf "%s\tERR\n" !cur_id
                | Some (f, names) -> Printf.printf "%s\tOK\t%s\t%s\n" !cur_id (str_of_form f) (String.concat "," (List.map str_of_name names)))
             else
               (match (if !pmode = "b" then run_parse_file cs else run_parse_queries cs) with
                | None -> Printf.printf "%s\tERR\n" !cur_id
                | Some (p, names) ->
                    let conds = String.concat "#" (List.map (fun ((((k, b), a), bt), at_) ->
                        string_of_int (int_of_nat k) ^ "~" ^ str_of_form b ^ "~" ^ str_of_form a ^ "~" ^ str_of_name (run_cond_text bt at_)) p.pf_conds) in
                    Printf.printf "%s\tOK\t%s\t%s\t%s\t%s\n" !cur_id (String.concat "," (List.map str_of_name p.pf_sig)) (str_of_name p.pf_name) conds
                      (String.concat "," (List.map str_of_name names)))
           end else if !kind = "R" then begin
             let t = List.rev !tbl in
             let pf r = let (f, rest) = parse_form r in if rest <> [] then failwith "op: trailing"; f in
             List.iteri (fun i (k, r) ->
               let res = match k with
                 | "F" -> str_of_on (frank t (pf r))
                 | "A" -> if accept t (parse_cond ("0" :: r)) then "1" else "0"
                 | "M" -> str_of_table (marginalize (List.map (fun x -> nat_of_int (int_of_string x)) r) t)
                 | "C" -> str_of_table (conditionalize t (pf r))
                 | "T" -> String.concat ";" (List.map (fun l -> String.concat "," (List.map str_of_world l)) (ranks2tpo t))
                 | "U" -> str_of_table (List.map (fun (w, r) -> (w, Some r)) (tpo_back t (List.map (fun x -> nat_of_int (int_of_string x)) r)))
                 | _ -> "?" in
               Printf.printf "%s|%d|%s\n" !cur_id i res) (List.rev !rops)
           end else if !kind = "Z" then begin
             match run_zocf (nat_of_int !cur_n) !zext (List.rev !fs) (List.rev !ds) (List.rev !zops) with
             | None -> Printf.printf "%s|REFUSE\n" !cur_id
             | Some (part, steps) ->
                 Printf.printf "%s|%s\n" !cur_id (str_of_part (Some part));
                 List.iteri (fun i (c, o) ->
                   let os = match o with VNat r -> string_of_int (int_of_nat r) | VOpt r -> str_of_on r | VBool b -> if b then "1" else "0"
                     | VTable t -> String.concat "," (List.map (fun r -> string_of_int (int_of_nat r)) t) in
                   Printf.printf "%s|%d|%s|%s\n" !cur_id i os (String.concat "," (List.map str_of_on c))) steps
           end else if !kind = "I" then begin
             let (((mins, selff), qrows), wres) = run_cinf (nat_of_int !cur_n) (List.rev !ds) (List.rev !qs) (List.rev !wits) (nat_of_int !bound) in
             let fam f = str_of_fam f in
             let mins_s = String.concat " " (List.map (fun (v, f) -> fam v ^ ";" ^ fam f) mins) in
             let q_s = String.concat " " (List.map (fun ((v, f), s) -> fam v ^ ";" ^ fam f ^ ";" ^
                          (match s with None -> "-" | Some e -> String.concat "," (List.map (fun x -> string_of_int (int_of_nat x)) e))) qrows) in
             let w_s = String.concat "" (List.map (fun b -> if b then "1" else "0") wres) in
             Printf.printf "%s|%s|%s|%s|%s\n" !cur_id mins_s (if selff then "1" else "0") q_s w_s
           end else if !kind = "K" then
             Printf.printf "%s|%s\n" !cur_id (if run_faithful (nat_of_int !cur_n) !amap !form (List.rev !cls) then "1" else "0")
           else if !kind = "M" then begin
             flush_group ();
             let (fam, lp) = run_mcs (nat_of_int !cur_n) (List.rev !hard) (List.rev !grps) in
             Printf.printf "%s|%s|%s\n" !cur_id (str_of_fam fam) (match lp with None -> "N" | Some f -> str_of_fam f)
           end else if !kind = "C" then begin
             let ((part, partidx), rows) = run_case (nat_of_int !cur_n) !cur_w (List.rev !ds) (List.rev !qs) in
             let rows_s = String.concat " " (List.map (fun (m, s) -> str_of_res m ^ ":" ^ str_of_res s) rows) in
             Printf.printf "%s|%s|%s|%s\n" !cur_id (str_of_part part) (str_of_part partidx) rows_s
           end else begin
             let ob = function None -> "-" | Some true -> "1" | Some false -> "0" in
             match run_diag (nat_of_int !cur_n) !cur_w !cur_uf (List.rev !fs) (List.rev !ds) with
             | None -> Printf.printf "%s|V\n" !cur_id
             | Some d -> Printf.printf "%s|%s%s%s%s%s\n" !cur_id (ob d.f_consistent) (ob d.bb_consistent)
                           (ob d.bb_w_consistent) (ob d.c_consistent) (ob d.c_infinity_increase)
           end
       | t :: _ -> failwith ("driver: bad line tag " ^ t)
     done
   with End_of_file -> ());
  flush stdout
