"""C06 correspondence: consistency()/consistency_indices() in both modes, consistency_diagnostics() for
random fact lists, and refusal of empty / inconsistent bases by every operator, against the Coq model
(whose partitions are proved exact in props/C06.v)."""
import random
from collections import Counter

import common
import ops
from common import F, Not, T, V, cond_text, gen_formula, make_case, to_cl

ASSUMPTIONS = [
    "model = code is checked only on the generated and corpus inputs of this run (differential testing)",
    "pysmt/z3 SAT answers are compared with world enumeration, not proved",
    "solver push/pop discipline is invisible to the model; an error there shows up as a partition difference",
]
REFUSE_CONFIGS = ops.ALL_CONFIGS + [("c-inference", "rc2")]


def _worker(args):
    case, dcases, refuse = args
    common.setup_impl_env()
    out = {"id": case["id"]}
    for variant in ("object", "keys"):
        try:
            out[variant] = common.impl_partition(case, variant)
        except Exception as e:  # noqa
            out[variant] = "EXC:%s:%s" % (type(e).__name__, str(e)[:100])
    out["diag"] = {}
    if dcases:
        from inference.consistency_diagnostics import consistency_diagnostics

        bb = common.build_bb(case)
        for dc in dcases:
            try:
                fl = [common.to_pysmt(f, case["sig"]) for f in dc["facts"]]
                pre = None
                if dc.get("precomputed") and dc["uses_facts"] and fl:
                    # as the ranking objects call it: the partition of base + facts is handed over, the base's own is not
                    from inference.consistency_diagnostics import augment_belief_base_with_facts
                    from inference.consistency_sat import consistency as _cons
                    pre = {("combined_extended" if dc["extended"] else "combined_standard"): _cons(augment_belief_base_with_facts(bb, fl), weakly=dc["extended"])}
                d = consistency_diagnostics(bb, extended=dc["extended"], uses_facts=dc["uses_facts"], facts=fl, on_inconsistent="silent", **({"precomputed": pre} if pre else {}))
                out["diag"][dc["id"]] = [d.get("facts_consistent"), d.get("belief_base_consistent"), d.get("belief_base_weakly_consistent"),
                                         d.get("combination_consistent"), d.get("combination_infinity_increase")]
            except ValueError:
                out["diag"][dc["id"]] = None
            except Exception as e:  # noqa
                out["diag"][dc["id"]] = "EXC:%s:%s" % (type(e).__name__, str(e)[:100])
    out["refuse"] = {}
    if refuse:
        # all operators on ONE belief-base object; for a strict-mode case the object is first used in extended mode (where the base
        # may well be acceptable): whatever was learnt about the object there must not soften the refusal in strict mode
        shared = common.build_bb(case) if case["base"] else None
        if shared is not None and not case["weakly"] and case.get("warmup"):
            out["warmup"] = common.impl_infer(dict(case, queries=case["queries"][:1] or [(1, common.T, common.T)]), "system-z", "rc2", weakly=True, bb=shared)
        for cfg in REFUSE_CONFIGS:
            out["refuse"][ops.cfg_name(cfg)] = common.impl_infer(case, cfg[0], cfg[1] or "rc2", bb=shared)
    return out


def gen_cases(rng, count):
    cases = []
    for weakly in (False, True):
        cases += ops.corpus_cases(weakly)
        cases += ops.gen_ops_cases(rng, count // 2, weakly, nq=1, prefix="s" if not weakly else "w")
    # edge cases: empty base, single never-verifiable / never-falsifiable conditionals, constants, duplicates
    a, b = V(0), V(1)
    for weakly in (False, True):
        t = "w" if weakly else "s"
        cases.append(make_case("edge-empty-" + t, 1, [], [(1, a, T)], weakly))
        cases.append(make_case("edge-botTop-" + t, 1, [(1, F, T)], [(1, a, T)], weakly))
        cases.append(make_case("edge-topTop-" + t, 1, [(1, T, T)], [(1, a, T)], weakly))
        cases.append(make_case("edge-contrad-" + t, 1, [(1, a, T), (2, Not(a), T)], [(1, a, T)], weakly))
        cases.append(make_case("edge-dup-" + t, 2, [(1, b, a), (2, b, a), (3, Not(b), a)], [(1, a, T)], weakly))
        cases.append(make_case("edge-unver-" + t, 2, [(1, b, F), (2, a, b)], [(1, a, T)], weakly))
        cases.append(make_case("edge-sparse-" + t, 2, [(7, b, a), (0, a, T), (3, Not(b), And2(a, b))], [(1, a, T)], weakly))
    return cases


def And2(x, y):
    return ("&", x, y)


def norm(p):
    return None if p is None else [sorted(l) for l in p]


def run(tier, seed, broken_proof=False):
    rng = random.Random(seed)
    count = 600 if tier == "quick" else 4000
    cases = gen_cases(rng, count)
    mres = common.run_model(cases)
    # diagnostics cases for a third of the cases; refusal for inconsistent/empty ones (bounded)
    jobs = []
    dcases_all = {}
    nref = 0
    # a third of the generated bases get arbitrary (sparse / 0-based / permuted) keys: keys matter for the fact constraints
    for c in cases:
        if c["id"][0] in "sw" and c["base"] and rng.random() < 0.35:
            ks = rng.sample(range(0, 3 * len(c["base"]) + 4), len(c["base"]))
            c["base"] = [(ks[i], b, a) for i, (_, b, a) in enumerate(c["base"])]
    mres = common.run_model(cases)
    for c in cases:
        dcs = []
        if rng.random() < 0.35 or c["id"].startswith(("edge", "corp")) or (c["base"] and c["base"][0][0] != 1):
            for (ext, uf) in ((False, False), (False, True), (True, False), (True, True)):
                nf = rng.randrange(0, 4) if uf and rng.random() < 0.1 else (rng.randrange(1, 4) if uf else 0)
                facts = [gen_formula(rng, c["n"], 1, 0.05) for _ in range(nf)]
                dcs.append({"id": "%s-d%d%d" % (c["id"], ext, uf), "n": c["n"], "base": c["base"], "facts": facts, "extended": ext, "uses_facts": uf, "precomputed": rng.random() < 0.5})
        for dc in dcs:
            dcases_all[dc["id"]] = dc
        refuse = False
        if mres[c["id"]]["part"] is None or not c["base"]:
            if nref < (25 if tier == "quick" else 150) or c["id"].startswith("edge"):
                refuse = True
                nref += 1
        jobs.append((dict(c, warmup=(rng.random() < 0.6)), dcs, refuse))
    dres = common.run_model_diag(list(dcases_all.values())) if dcases_all else {}
    ires = {}
    for out in ops.pool().imap_unordered(_worker, jobs, chunksize=2):
        ires[out["id"]] = out

    violations = []
    strata = Counter()
    nontrivial = set()
    evals = 0
    samples = []
    for c in cases:
        m = mres[c["id"]]
        im = ires[c["id"]]
        evals += 2
        exp = norm(m["part"])
        strata["inconsistent" if exp is None else "layers=%d" % min(len(exp), 4)] += 1
        strata["weakly" if c["weakly"] else "strict"] += 1
        if exp is not None and c["weakly"] and exp[-1]:
            strata["infinity-nonempty"] += 1
        if len(c["base"]) >= 2:
            nontrivial.add(common.case_key(c))
        if norm(m["part_idx"]) != exp:
            violations.append({"kind": "model-variants", "case": c, "expected": exp, "actual": m["part_idx"], "found_by": "none",
                               "theorem_or_observable": "C06_variants_agree (model object loop vs key loop)"})
        for variant in ("object", "keys"):
            got = im[variant]
            gotn = norm(got) if not isinstance(got, str) else got
            if gotn != exp:
                violations.append({"kind": "partition", "variant": variant, "case": c, "texts": [cond_text(x, c["sig"]) for x in c["base"]],
                                   "expected": exp, "actual": got, "found_by": "corpus" if c["id"].startswith(("corp", "edge")) else "generated",
                                   "theorem_or_observable": "consistency partition (%s variant, weakly=%s)" % (variant, c["weakly"])})
        for did, got in im["diag"].items():
            evals += 1
            e = dres[did]
            dc = dcases_all[did]
            strata["diag ext=%d facts=%d" % (dc["extended"], dc["uses_facts"])] += 1
            if got != e:
                violations.append({"kind": "diagnostics", "case": c, "facts": [to_cl(f, c["sig"]) for f in dc["facts"]], "extended": dc["extended"],
                                   "uses_facts": dc["uses_facts"], "expected": e, "actual": got, "found_by": "generated",
                                   "theorem_or_observable": "consistency_diagnostics flags [facts,bb,bb_w,comb,inf_inc]"})
        for cfg, got in im["refuse"].items():
            evals += 1
            strata["refusal"] += 1
            if isinstance(got, list):       # answers instead of an error (any error counts as a refusal: the property does not name its class)
                violations.append({"kind": "refusal", "config": cfg, "case": c, "expected": "REFUSE", "actual": got, "found_by": "generated",
                                   "theorem_or_observable": "operators refuse empty / inconsistent bases"})
            elif got != "REFUSE":
                strata["refusal-by-another-error-class"] += 1
        if len(samples) < 4 and exp is not None and len(exp) >= 2:
            samples.append({"sig": c["sig"], "base": [cond_text(x, c["sig"]) for x in c["base"]], "weakly": c["weakly"], "partition": exp})
    return {
        "evaluations": evals,
        "distinct_nontrivial": len(nontrivial),
        "rule": "generated bases (hierarchy templates, random literal/compound conditionals, constants, duplicates, infinity-layer fillers) + corpus + edge cases; "
                "non-trivial = distinct base with >= 2 conditionals; compared: object and key partitions in the case's mode, diagnostics flags for random fact lists "
                "in all four (extended, uses_facts) modes, refusal by all 7 operator/back-end pairs on empty/inconsistent bases",
        "samples": samples,
        "strata": dict(strata),
        "traces_validated_against_impl": evals,
        "violations": violations,
    }


def replay(payload):
    c = payload["case"]
    m = common.run_model([c])[c["id"]]
    out = _worker((c, [], payload.get("kind") == "refusal"))
    print("model partition:", m["part"], " impl object:", out["object"], " impl keys:", out["keys"], " refusal:", out["refuse"])
    v = []
    for variant in ("object", "keys"):
        if (norm(out[variant]) if not isinstance(out[variant], str) else out[variant]) != norm(m["part"]):
            v.append(dict(payload, actual=out[variant]))
    return {"evaluations": 1, "distinct_nontrivial": 1, "rule": "replay", "samples": [payload.get("texts")], "violations": v}


def matches_known(f, payload):
    return common.generic_match(f, payload)
