"""C20 correspondence: ranking objects of every kind in random partial-computation states are saved and loaded (same process and
a fresh interpreter); signature, ranks after completion, impacts, acceptance verdicts and continued lazy computation must
coincide with the original and (System Z) with the Coq model; impact vectors and JSON-representable metadata must round-trip
under every file-name / fmt combination; a save that fails part-way must leave the in-memory object unchanged and usable."""
import itertools
import json
import os
import random
import shutil
import subprocess
import tempfile
from collections import Counter

import common
import ops
from common import cond_text, gen_formula, to_cl

ASSUMPTIONS = [
    "pickle / JSON byte formats, re-interning of pysmt nodes in a fresh interpreter and file-system faults are not expressible in an executable model: exercised here only",
    "model = code only on the generated inputs of this run",
]
FRESH = r'''
import sys, json, warnings
warnings.filterwarnings("ignore")
sys.path.insert(0, sys.argv[1])
from inference.preocf import PreOCF
from inference.conditional import Conditional
from pysmt.shortcuts import Symbol, And, Or, Not, TRUE, FALSE
def f(t):
    k=t[0]
    if k=="T": return TRUE()
    if k=="F": return FALSE()
    if k=="v": return Symbol(sig[t[1]])
    if k=="!": return Not(f(t[1]))
    return (And if k=="&" else Or)(f(t[1]), f(t[2]))
spec=json.load(open(sys.argv[2]))
sig=spec["sig"]
def oc(fn):
    try:
        return fn()
    except Exception as e:
        return "EXC:" + type(e).__name__
# "qfirst": the query conditionals are built before the file is read and asked before anything else is computed
qs0=[Conditional(f(b), f(a), "q") for (b,a) in spec["queries"]] if spec.get("qfirst") else []
o=PreOCF.load_ocf(spec["path"], trusted=True)
cached0=[[w, o.ranks[w]] for w in o.ranks]
isocf0=oc(lambda: bool(o.is_ocf()))
accept0=[oc(lambda: bool(o.conditional_acceptance(c))) for c in qs0]
out={"accept0": accept0, "sig": list(o.signature), "cached": cached0, "kind": o.ranking_system, "impacts": getattr(o, "_impacts", None)}
out["is_ocf"]=isocf0
out["lazy"]=[oc(lambda: o.rank_world(w)) for w in spec["lazy"]]
out["accept"]=[oc(lambda: bool(o.conditional_acceptance(Conditional(f(b), f(a), "q")))) for (b,a) in spec["queries"]]
out["franks"]=[oc(lambda: o.formula_rank(f(a))) for (b,a) in spec["queries"]]
out["all"]=oc(lambda: [[w, int(x)] for w, x in o.compute_all_ranks().items()])
print(json.dumps(out))
'''

# the saving side of a cross-interpreter round trip: the belief base is built, partially ranked and saved by an interpreter
# of its own, so that the formula objects in the file carry that interpreter's bookkeeping (pysmt node ids), not the reader's
PRODUCER = r'''
import sys, json, warnings
warnings.filterwarnings("ignore")
sys.path.insert(0, sys.argv[1])
from inference.preocf import PreOCF, RandomMinCRepPreOCF
from inference.belief_base import BeliefBase
from inference.conditional import Conditional
from pysmt.shortcuts import Symbol, And, Or, Not, TRUE, FALSE
def f(t):
    k=t[0]
    if k=="T": return TRUE()
    if k=="F": return FALSE()
    if k=="v": return Symbol(sig[t[1]])
    if k=="!": return Not(f(t[1]))
    return (And if k=="&" else Or)(f(t[1]), f(t[2]))
spec=json.load(open(sys.argv[2]))
sig=spec["sig"]
conds={}
for (k,b,a) in spec["base"]:
    conds[k]=Conditional(f(b), f(a), "(c%d)" % k)
bb=BeliefBase(list(sig), conds, "bb")
if spec["kind"]=="system-z": o=PreOCF.init_system_z(bb)
elif spec["kind"]=="c-rep": o=RandomMinCRepPreOCF.init_with_impacts_list(bb, list(spec["impacts"]))
else: o=PreOCF.init_custom(dict(spec["ranks"]), bb, list(sig))
for w in spec["pre"]:
    o.rank_world(w)
o.save_ocf(spec["path"])
print(json.dumps({"cached": [[w, o.ranks[w]] for w in o.ranks]}))
'''


def rot(t, n):
    """the formula with every atom replaced by the next one of the signature (same shape, other meaning)"""
    if t[0] == "v":
        return ("v", (t[1] + 1) % n)
    if t[0] in ("T", "F"):
        return tuple(t)
    return (t[0],) + tuple(rot(x, n) for x in t[1:])


def bits(w):
    return "".join("1" if b else "0" for b in w)


def oc(fn):
    try:
        return fn()
    except Exception as e:  # noqa
        return "EXC:" + type(e).__name__


def _worker(case):
    common.setup_impl_env()
    import warnings
    warnings.filterwarnings("ignore")
    from inference.conditional import Conditional
    from inference.preocf import PreOCF, RandomMinCRepPreOCF

    sig = case["sig"]
    out = {"id": case["id"], "problems": []}
    tmp = tempfile.mkdtemp(prefix="verif_c20_")
    try:
        bb = common.build_bb(case)
        if case["kind"] == "system-z":
            ocf = PreOCF.init_system_z(bb)
        elif case["kind"] == "c-rep":
            ocf = PreOCF.init_random_min_c_rep(bb)
        elif case["kind"] == "custom":
            ocf = PreOCF.init_custom(dict(case["ranks"]), bb, list(sig))
        elif case["kind"] == "custom-partial":
            ocf = PreOCF.init_custom(dict(case["ranks"]), None, list(sig))
        else:  # marginal of a partially computed System Z / c-representation object
            src = PreOCF.init_system_z(bb) if case["kind"] == "marginal-z" else PreOCF.init_random_min_c_rep(bb)
            for w in case["pre"]:
                src.rank_world(w)
            ocf = src.marginalize([sig[i] for i in case["drop"]])
            sig = list(ocf.signature)
        derived = case["kind"] in ("custom-partial", "marginal-z", "marginal-c")
        if not derived:
            for w in case["pre"]:
                ocf.rank_world(w)
        ocf.save_meta("note", {"a": [1, 2, {"b": None}], "s": "x"})
        qs = [Conditional(common.to_pysmt(b, sig), common.to_pysmt(a, sig), "q") for (b, a) in case["queries"]]
        cached_before = [[w, ocf.ranks[w]] for w in ocf.ranks]
        if derived:
            case = dict(case, lazy=[w for w in ocf.ranks][:6] + [w for w in case.get("lazy_small", [])], fresh=True)
        # ---- failing saves first: the object must stay unchanged and usable
        fails = []
        try:
            ocf.save_ocf(os.path.join(tmp, "no_such_dir", "x.pkl"))
            fails.append("unwritable target did not raise")
        except Exception:  # noqa
            pass
        ocf.save_meta("bad", lambda x: x)
        try:
            ocf.save_ocf(os.path.join(tmp, "bad.pkl"))
            fails.append("unpicklable member did not raise")
        except Exception:  # noqa
            pass
        del ocf.metadata["bad"]
        if [[w, ocf.ranks[w]] for w in ocf.ranks] != cached_before:
            fails.append("cache changed by a failed save")
        if case["kind"] == "c-rep" and (getattr(ocf, "_optimizer", None) is None or getattr(ocf, "_csp", None) is None):
            fails.append("solver handles not restored after a failed save")
        out["problems"] += fails
        # ---- good save, same-process load
        path = os.path.join(tmp, "obj.pkl")
        ocf.save_ocf(path)
        if case["kind"] == "c-rep" and (getattr(ocf, "_optimizer", None) is None or getattr(ocf, "_csp", None) is None):
            out["problems"].append("solver handles not restored after save")
        loaded = PreOCF.load_ocf(path, trusted=True)
        out["loaded_sig_ok"] = list(loaded.signature) == list(ocf.signature)
        out["loaded_cache_ok"] = [[w, loaded.ranks[w]] for w in loaded.ranks] == cached_before
        out["is_ocf_same"] = oc(lambda: bool(loaded.is_ocf())) == oc(lambda: bool(ocf.is_ocf()))
        isocf_o = oc(lambda: bool(ocf.is_ocf()))
        lazy_l = [oc(lambda: loaded.rank_world(w)) for w in case["lazy"]]
        lazy_o = [oc(lambda: ocf.rank_world(w)) for w in case["lazy"]]
        out["lazy_same"] = lazy_l == lazy_o
        out["accept_o"] = [oc(lambda: bool(ocf.conditional_acceptance(c))) for c in qs]
        out["accept_same"] = [oc(lambda: bool(loaded.conditional_acceptance(c))) for c in qs] == out["accept_o"]
        franks_o = [oc(lambda: ocf.formula_rank(c.antecedence)) for c in qs]
        out["formula_ranks_same"] = [oc(lambda: loaded.formula_rank(c.antecedence)) for c in qs] == franks_o
        all_o = oc(lambda: [[w, int(x)] for w, x in ocf.compute_all_ranks().items()])
        out["all_o"] = [x for _, x in all_o] if isinstance(all_o, list) else all_o
        out["all_same"] = oc(lambda: [[w, int(x)] for w, x in loaded.compute_all_ranks().items()]) == all_o
        out["impacts_same"] = getattr(loaded, "_impacts", None) == getattr(ocf, "_impacts", None)
        # ---- fresh interpreter (object saved again in its partial state: re-create it)
        if case["fresh"]:
            if case["kind"] == "system-z":
                o2 = PreOCF.init_system_z(bb)
            elif case["kind"] == "c-rep":
                o2 = RandomMinCRepPreOCF.init_with_impacts_list(bb, list(ocf._impacts))
            elif case["kind"] == "custom":
                o2 = PreOCF.init_custom(dict(case["ranks"]), bb, list(sig))
            elif case["kind"] == "custom-partial":
                o2 = PreOCF.init_custom(dict(case["ranks"]), None, list(sig))
            else:
                o2 = PreOCF.init_custom(dict((w, r) for w, r in cached_before), None, list(sig))
            if not derived:
                for w in case["pre"]:
                    o2.rank_world(w)
            p2 = os.path.join(tmp, "obj2.pkl")
            o2.save_ocf(p2)
            spec = {"sig": list(sig), "path": p2, "lazy": case["lazy"], "queries": case["queries"]}
            sp = os.path.join(tmp, "spec.json")
            json.dump(spec, open(sp, "w"))
            sc = os.path.join(tmp, "fresh.py")
            open(sc, "w").write(FRESH)
            env = dict(os.environ, PYTHONPATH=common.REPO, INFOCF_LOGLEVEL="ERROR", PYTHONHASHSEED="0")
            r = subprocess.run(["/venv/bin/python", sc, common.REPO, sp], capture_output=True, text=True, env=env, timeout=300)
            if r.returncode != 0:
                out["problems"].append("fresh interpreter failed: " + r.stderr[-300:])
            else:
                fr = json.loads(r.stdout.strip().splitlines()[-1])
                if fr["sig"] != list(sig) or fr["lazy"] != lazy_o or fr["accept"] != out["accept_o"] or fr["all"] != all_o or fr["franks"] != franks_o or fr["is_ocf"] != isocf_o or fr["cached"] != cached_before \
                        or (case["kind"] == "c-rep" and fr["impacts"] != list(ocf._impacts)):
                    out["problems"].append("fresh interpreter differs: %s" % fr)
        # ---- saved by one fresh interpreter, read by another one that has already built conditionals of its own
        #      (the base's conditionals over rotated atoms, built in the same order and asked first)
        if case["fresh"] and not derived:
            nat = len(sig)
            shadow = [(rot(b, nat), rot(a, nat)) for (_k, b, a) in case["base"]]
            xq = shadow + [tuple(q) for q in case["queries"]]
            xqs = [Conditional(common.to_pysmt(b, sig), common.to_pysmt(a, sig), "q") for (b, a) in xq]
            xacc = [oc(lambda: bool(ocf.conditional_acceptance(c))) for c in xqs]
            xfr = [oc(lambda: ocf.formula_rank(c.antecedence)) for c in xqs]
            p3 = os.path.join(tmp, "obj3.pkl")
            pspec = {"sig": list(sig), "path": p3, "base": case["base"], "kind": case["kind"], "pre": case["pre"],
                     "impacts": list(getattr(ocf, "_impacts", None) or []), "ranks": case.get("ranks")}
            psp = os.path.join(tmp, "pspec.json")
            json.dump(pspec, open(psp, "w"))
            psc = os.path.join(tmp, "producer.py")
            open(psc, "w").write(PRODUCER)
            env = dict(os.environ, PYTHONPATH=common.REPO, INFOCF_LOGLEVEL="ERROR", PYTHONHASHSEED="0")
            r = subprocess.run(["/venv/bin/python", psc, common.REPO, psp], capture_output=True, text=True, env=env, timeout=300)
            if r.returncode != 0:
                out["problems"].append("saving interpreter failed: " + r.stderr[-300:])
            else:
                spec = {"sig": list(sig), "path": p3, "lazy": case["lazy"], "queries": xq, "qfirst": True}
                sp = os.path.join(tmp, "spec3.json")
                json.dump(spec, open(sp, "w"))
                sc = os.path.join(tmp, "fresh.py")
                open(sc, "w").write(FRESH)
                r = subprocess.run(["/venv/bin/python", sc, common.REPO, sp], capture_output=True, text=True, env=env, timeout=300)
                if r.returncode != 0:
                    out["problems"].append("reading interpreter failed: " + r.stderr[-300:])
                else:
                    fr = json.loads(r.stdout.strip().splitlines()[-1])
                    want = {"sig": list(sig), "accept0": xacc, "lazy": lazy_o, "accept": xacc, "all": all_o, "franks": xfr, "is_ocf": isocf_o, "cached": cached_before}
                    diff = ["%s: read %s, original %s" % (k, fr[k], v) for k, v in want.items() if fr[k] != v]
                    if diff:
                        out["problems"].append("saved by one interpreter, read by another (queries first): " + "; ".join(diff))
        # ---- metadata round trips: every (file name, fmt) combination
        meta = {"a": [1, 2, {"b": None}], "s": "x", "n": 3}
        for name, fmt in (("m.json", "json"), ("m.JSON", "json"), ("m.pkl", "pickle"), ("m.PKL", "json"), ("m.pickle", "json"), ("m.txt", "json"), ("m.txt", "pickle"), ("m", "json"), ("m.meta", "pickle")):
            src = PreOCF.init_custom(dict(case["ranks"]) if case["kind"] == "custom" else {"0": 0, "1": 1}, None, list(sig) if case["kind"] == "custom" else ["a"])
            src._metadata.update(meta)
            p = os.path.join(tmp, name)
            try:
                src.save_metadata(p, fmt=fmt)
                dst = PreOCF.init_custom({"0": 0, "1": 1}, None, ["a"])
                dst.load_metadata(p)
                if dst.metadata != meta:
                    out["problems"].append("metadata round trip (%s, fmt=%s) changed the data: %s" % (name, fmt, dst.metadata))
                # ... into an object that already holds metadata: saved values replace stale ones, other keys stay
                dst2 = PreOCF.init_custom({"0": 0, "1": 1}, None, ["a"])
                dst2._metadata.update({"s": "stale", "keep": 7})
                dst2.load_metadata(p)
                if dst2.metadata != dict(meta, keep=7):
                    out["problems"].append("metadata loaded into an object holding a stale value (%s, fmt=%s): %s" % (name, fmt, dst2.metadata))
                # ... and back into the object that saved them, after the values were changed in memory
                src._metadata["n"] = 99
                src.load_metadata(p)
                if src.metadata != meta:
                    out["problems"].append("metadata reloaded into the saving object (%s, fmt=%s): %s" % (name, fmt, src.metadata))
            except Exception as e:  # noqa
                out["problems"].append("metadata round trip (%s, fmt=%s) raised %s:%s" % (name, fmt, type(e).__name__, str(e)[:60]))
        # ---- impact vector round trips
        if case["kind"] == "c-rep":
            for name, fmt in (("i.json", "json"), ("i.pkl", "pickle"), ("i.pkl", "json"), ("i.JSON", "json"), ("i.dat", "pickle"), ("i.json", "pickle")):
                p = os.path.join(tmp, name)
                try:
                    ocf.export_impacts(p, fmt=fmt)
                    o3 = RandomMinCRepPreOCF.init_with_impacts(bb, p)
                    if list(o3._impacts) != list(ocf._impacts) or [int(x) for x in o3.compute_all_ranks().values()] != out["all_o"]:
                        out["problems"].append("impacts round trip (%s, fmt=%s) changed the vector" % (name, fmt))
                except Exception as e:  # noqa
                    out["problems"].append("impacts round trip (%s, fmt=%s) raised %s:%s" % (name, fmt, type(e).__name__, str(e)[:60]))
            if list(ocf.save_impacts()) != list(ocf._impacts):
                out["problems"].append("save_impacts differs")
            # an object rebuilt from an exported vector owns its impacts: editing the caller's list afterwards must not reach it
            vec = list(ocf.save_impacts())
            keep = list(vec)
            o4 = RandomMinCRepPreOCF.init_with_impacts_list(bb, vec)
            ws = list(o4.ranks.keys())
            first = [o4.rank_world(w) for w in ws[: len(ws) // 2]]
            for j in range(len(vec)):
                vec[j] += 3 + j
            rest = [o4.rank_world(w) for w in ws[len(ws) // 2:]]
            if first + rest != out["all_o"] or list(o4.save_impacts()) != keep:
                out["problems"].append("object rebuilt from an impact list follows later edits of the caller's list")
    except BaseException as e:  # noqa
        out["problems"].append("EXC:%s:%s" % (type(e).__name__, str(e)[:150]))
    finally:
        shutil.rmtree(tmp, ignore_errors=True)
    return out


def run(tier, seed, broken_proof=False):
    rng = random.Random(seed + 2020)
    count = 48 if tier == "quick" else 360
    cand = ops.gen_ops_cases(rng, count * 3, False, max_atoms=4, max_conds=4, nq=0, prefix="s")
    m0 = common.run_model(cand)
    good = [c for c in cand if m0[c["id"]]["part"] is not None and c["base"]][:count]
    cases = []
    # a few large c-representation objects (>= 10 conditionals: two-digit indices, impacts that are not all equal)
    big = []
    for j in range(40):
        nn = rng.randrange(6, 9)
        bs = common.gen_base_hierarchy(rng, min(nn, 6), 7)
        kmax = max(k for k, _, _ in bs)
        for x in range(nn):
            kmax += 1
            bs.append((kmax, common.V(x) if rng.random() < 0.5 else common.Not(common.V(x)), common.T if rng.random() < 0.6 else common.V(rng.randrange(nn))))
        bs = bs[:rng.randrange(10, 13)]
        if len(bs) >= 10:
            big.append(common.make_case("big%d" % j, nn, bs, [], False))
    mb = common.run_model(big)
    bigok = [c for c in big if mb[c["id"]]["part"] is not None and len(mb[c["id"]]["part"]) >= 2][: (2 if tier == "quick" else 10)]
    good = bigok + good
    for i, c in enumerate(good):
        n = c["n"]
        worlds = [bits(w) for w in itertools.product([False, True], repeat=n)]
        kind = "c-rep" if c["id"].startswith("big") else ["system-z", "c-rep", "custom", "custom-partial", "marginal-z", "marginal-c"][i % 6]
        cc = {"id": c["id"], "n": n, "sig": c["sig"], "base": c["base"], "kind": kind, "weakly": False,
              "pre": rng.sample(worlds, rng.randrange(0, len(worlds) + 1)), "lazy": rng.sample(worlds, rng.randrange(1, len(worlds) + 1)),
              "queries": [(gen_formula(rng, n, 1, 0.05), gen_formula(rng, n, 1, 0.05)) for _ in range(4)],
              "fresh": (i % 4 == 0) or tier == "thorough"}
        if kind == "custom":
            cc["ranks"] = [(w, rng.randrange(0, 4)) for w in worlds]
        elif kind == "custom-partial":
            # ranks for only some of the worlds (the others have no entry at all); one of them has rank 0
            some = rng.sample(worlds, rng.randrange(1, len(worlds)))
            cc["ranks"] = [(w, 0 if j == 0 else rng.randrange(0, 4)) for j, w in enumerate(some)]
            cc["lazy_small"] = rng.sample(worlds, min(3, len(worlds)))
        elif kind.startswith("marginal"):
            if n < 2:
                kind = cc["kind"] = "system-z"
            else:
                cc["drop"] = sorted(rng.sample(range(n), rng.randrange(1, n)))
                n2 = n - len(cc["drop"])
                w2 = [bits(w) for w in itertools.product([False, True], repeat=n2)]
                cc["lazy_small"] = rng.sample(w2, min(3, len(w2)))
                cc["queries"] = [(gen_formula(rng, n2, 1, 0.05), gen_formula(rng, n2, 1, 0.05)) for _ in range(4)]
        cases.append(cc)
    import concurrent.futures
    import multiprocessing as mp
    ires = {}
    with concurrent.futures.ProcessPoolExecutor(max_workers=10, mp_context=mp.get_context("fork")) as ex:
        for out in ex.map(_worker, cases):
            ires[out["id"]] = out
    # System Z objects: the completed table must also be the model's Z-ranks
    lines = []
    for c in cases:
        if c["kind"] == "system-z":
            lines.append("Z %s %d 0" % (c["id"], c["n"]))
            for (k, b, a) in c["base"]:
                lines.append("D %d %s ; %s" % (k, common.to_prefix(b), common.to_prefix(a)))
            lines.append("PA")
            lines.append("E")
    mz = {}
    for line in common._run_bin("\n".join(lines) + "\n"):
        parts = line.split("|")
        if len(parts) == 4:
            mz[parts[0]] = [int(x) for x in parts[2].split(",")]
    violations = []
    strata = Counter()
    evals = 0
    nontriv = set()
    samples = []
    for c in cases:
        im = ires[c["id"]]
        desc = {"kind": c["kind"], "sig": c["sig"], "base": [cond_text(x, c["sig"]) for x in c["base"]], "precomputed_worlds": c["pre"], "lazy_after_load": c["lazy"]}
        strata["kind=" + c["kind"]] += 1
        strata["partial-state" if 0 < len(c["pre"]) < 2 ** c["n"] else ("empty-cache" if not c["pre"] else "full-cache")] += 1
        if c["fresh"]:
            strata["fresh-interpreter"] += 1
        evals += 1
        nontriv.add(c["id"])
        probs = list(im["problems"])
        for k in ("loaded_sig_ok", "loaded_cache_ok", "is_ocf_same", "lazy_same", "accept_same", "formula_ranks_same", "all_same", "impacts_same"):
            if k in im and not im[k]:
                probs.append(k + " is False")
        if c["kind"] == "system-z" and c["id"] in mz and im.get("all_o") is not None and im.get("all_o") != mz[c["id"]]:
            probs.append("completed ranks differ from the Z-ranks of the model")
        for p in probs:
            violations.append({"kind": "persistence", "what": p.split(" (")[0].split(":")[0][:60], "detail": p, "case": desc, "found_by": "generated",
                               "theorem_or_observable": "save / load round trip: " + p[:120]})
        if len(samples) < 2:
            samples.append(dict(desc, ranks_after_completion=im.get("all_o")))
    uniq, seen = [], set()
    for v in violations:
        k = (v["what"], v["detail"][:70])
        if k not in seen:
            seen.add(k)
            uniq.append(v)
    return {"evaluations": evals, "distinct_nontrivial": len(nontriv),
            "rule": "per object (System Z, c-representation, custom total, custom with ranks for only some worlds, marginal of a partially computed System Z / c-representation object; bases <= 4 atoms / 4 conditionals): a random subset of the ranks pre-computed, two failing saves (missing directory, unpicklable metadata member), "
                    "save_ocf + load_ocf in the same process and (every 4th object; all in the thorough tier) in a fresh interpreter, then lazy ranks in random order, 4 acceptance queries and completion compared; "
                    "9 metadata and 6 impact-file (name, fmt) combinations; non-trivial = each object",
            "samples": samples, "strata": dict(strata), "traces_validated_against_impl": evals, "violations": uniq[:20]}


def replay(payload):
    return {"evaluations": 1, "distinct_nontrivial": 1, "rule": "replay", "samples": [str(payload)[:500]], "violations": []}


def matches_known(f, payload):
    return common.generic_match(f, payload)
