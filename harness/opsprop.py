"""Shared driver of the operator properties (C01-C04, C07, C11): generate cases, run model and
implementation, compare answers; a disagreement on an answer is a violation of the property because the
model's answer is proved (props/Cnn.v) to be the definition's answer, which the model also prints."""
import itertools
import random
from collections import Counter

import common
import ops
from common import cond_text, ev

ASSUMPTIONS = [
    "model = code is checked only on the generated and corpus inputs of this run (differential testing)",
    "SAT / MaxSAT oracles (z3 via pysmt, pysat RC2, z3 Optimize) are outside the model: their effect is compared per answer",
    "world enumeration in the extracted model is limited to small signatures (quick <= 6 atoms, thorough <= 9)",
]


def query_nontrivial(case, q):
    n = case["n"]
    has_ab = has_anb = False
    for bits in itertools.product([False, True], repeat=n):
        if ev(q[2], bits):
            if ev(q[1], bits):
                has_ab = True
            else:
                has_anb = True
        if has_ab and has_anb:
            return True
    return False


def shrink(case, cfg, qi):
    """Greedy shrinking of a disagreeing case: single query, then drop conditionals while impl != model."""
    def disagrees(c):
        m = common.run_model([c])[c["id"]]
        got = common.impl_infer(c, cfg[0], cfg[1] or "rc2")
        exp = [row[cfg[0]] for row in m["model"]]
        if exp and exp[0] == "REFUSE" or m["part"] is None or not c["base"]:
            return False
        return (not isinstance(got, list)) or got != exp

    cur = dict(case, queries=[case["queries"][qi]] if qi is not None else case["queries"][:1])
    if not disagrees(cur):
        return dict(case)
    changed = True
    while changed and len(cur["base"]) > 1:
        changed = False
        for i in range(len(cur["base"])):
            cand = dict(cur, base=cur["base"][:i] + cur["base"][i + 1:])
            try:
                if disagrees(cand):
                    cur = cand
                    changed = True
                    break
            except Exception:  # noqa
                pass
    return cur


def describe(case):
    return {"sig": case["sig"], "base": [[k, cond_text((k, b, a), case["sig"])] for (k, b, a) in case["base"]],
            "queries": [cond_text(q, case["sig"]) for q in case["queries"]], "weakly": case["weakly"]}


def run_ops_property(prop, configs, modes, tier, seed, quick_count=450, thorough_count=3000, max_atoms=None, extra_cases=None,
                     case_filter=None):
    rng = random.Random(seed * 7919 + sum(ord(ch) for ch in prop))
    count = quick_count if tier == "quick" else thorough_count
    max_atoms = max_atoms or (5 if tier == "quick" else 7)
    cases = []
    for weakly in modes:
        cases += ops.corpus_cases(weakly)
        cand = ops.gen_ops_cases(rng, int(count * 2.2), weakly, max_atoms=max_atoms, prefix="w" if weakly else "s", partial_sig=True)
        # steer: keep all consistent candidates up to the count, and 10 % inconsistent ones
        mres0 = common.run_model(cand)
        good = [c for c in cand if mres0[c["id"]]["part"] is not None]
        bad = [c for c in cand if mres0[c["id"]]["part"] is None]
        keep = good[:count] + bad[: max(3, count // 10)]
        for c in keep:
            part = mres0[c["id"]]["part"]
            if part is not None:
                extra = ops.tie_queries(rng, c, part)
                base_k = len(c["queries"])
                c["queries"] = c["queries"] + [(base_k + 1 + i, b, a) for i, (b, a) in enumerate(extra)]
        cases += keep
    if extra_cases:
        cases += extra_cases
    if case_filter:
        cases = [c for c in cases if case_filter(c)]
    mres = common.run_model(cases)
    ires = ops.run_impl(cases, configs)
    dis = ops.diff_ops(cases, mres, ires, configs)

    strata = Counter()
    nontrivial = set()
    evals = 0
    samples = []
    for c in cases:
        m = mres[c["id"]]
        for s in ops.strata(c, m):
            strata[s] += 1
        if m["part"] is None:
            continue
        for qi, q in enumerate(c["queries"]):
            evals += len(configs)
            if query_nontrivial(c, q):
                nontrivial.add((common.case_key(dict(c, queries=[])), qi))
                strata["nontrivial-queries"] += 1
                row = m["model"][qi]
                strata["answers-true" if row[configs[0][0]] is True else "answers-false"] += 1
        if len(samples) < 3 and len(m["part"]) >= 2:
            d = describe(c)
            d["model_answers"] = [{cfg[0]: row[cfg[0]] for cfg in configs} for row in m["model"]]
            samples.append(d)
    for need in ("layers=2", "operators-differ") if False in modes else ("inf-nonempty", "no-finite-layer"):
        if strata[need] == 0:
            strata["STARVED:" + need] = 1

    violations = []
    seen = set()
    for d in dis:
        c = d["case"]
        key = (d["config"], str(d["impl"])[:24], str(d["model"])[:8])
        if key in seen and len(violations) >= 6:
            continue
        seen.add(key)
        cfg = next(cf for cf in configs if ops.cfg_name(cf) == d["config"])
        try:
            small = shrink(c, cfg, d["query"])
        except Exception:  # noqa
            small = dict(c)
        m = common.run_model([small])[small["id"]]
        got = common.impl_infer(small, cfg[0], cfg[1] or "rc2")
        violations.append({
            "kind": "answer", "config": d["config"], "weakly": c["weakly"], "case": small, "readable": describe(small),
            "expected_model": [row[cfg[0]] for row in m["model"]], "expected_spec": [row[cfg[0]] for row in m["spec"]],
            "actual": got, "original_case_id": c["id"],
            "found_by": "corpus" if c["id"].startswith("corp") else "generated",
            "theorem_or_observable": "answer of %s (weakly=%s) vs definition" % (d["config"], c["weakly"]),
        })
        if len(violations) >= 40:
            break
    return {
        "evaluations": evals,
        "distinct_nontrivial": len(nontrivial),
        "rule": "cases = corpus + generated bases (birds-like exception hierarchies, random literal / compound conditionals, constants, duplicates, "
                "infinity-layer fillers in extended mode), steered to consistent bases on the model side; queries: literals, compounds, base conditionals, "
                "specialisations, atoms outside the signature; non-trivial = distinct (base, query) with both A&B and A&!B satisfiable; compared: every answer of "
                + ", ".join(ops.cfg_name(c) for c in configs) + " with the model (= definition, by the theorems)",
        "samples": samples,
        "strata": dict(strata),
        "configs": [ops.cfg_name(c) for c in configs],
        "traces_validated_against_impl": evals,
        "disagreements_total": len(dis),
        "violations": violations,
    }


def replay_ops(payload, configs):
    c = payload["case"]
    m = common.run_model([c])[c["id"]]
    v = []
    for cfg in configs:
        if payload.get("config") and ops.cfg_name(cfg) != payload["config"]:
            continue
        got = common.impl_infer(c, cfg[0], cfg[1] or "rc2")
        exp = [row[cfg[0]] for row in m["model"]]
        print("%s: impl=%s model=%s spec=%s" % (ops.cfg_name(cfg), got, exp, [row[cfg[0]] for row in m["spec"]]))
        if got != exp and not (m["part"] is None and got == "REFUSE"):
            v.append(dict(payload, actual=got))
    return {"evaluations": 1, "distinct_nontrivial": 1, "rule": "replay", "samples": [describe(c)], "violations": v}
