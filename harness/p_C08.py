"""C08 correspondence: all operators (6 operator/back-end pairs + c-inference) on the same cases, both modes;
answers compared with the Coq model (where the inclusions are theorems) and the inclusion chain monitored
directly on the implementation's answers (also on bases too large for world enumeration, thorough tier)."""
import glob
import os
import random

import common
import ops
import opsprop
from common import cond_text

ASSUMPTIONS = opsprop.ASSUMPTIONS + [
    "for bases too large to enumerate worlds (shipped corpora, thorough tier) only the implications themselves are monitored on the implementation's answers"
]
CONFIGS6 = ops.ALL_CONFIGS
CHAINS = [("p-entailment", "system-z"), ("system-z", "system-w/rc2"), ("system-z", "system-w/z3"), ("system-w/rc2", "lex_inf/rc2"),
          ("system-w/z3", "lex_inf/z3")]
CHAINS_STRICT = [("p-entailment", "c-inference/rc2"), ("c-inference/rc2", "system-w/rc2")]


def monitor(case, res, strict):
    """Implication monitor on implementation answers: list of (lower, upper, query index)."""
    out = []
    for lo, hi in CHAINS + (CHAINS_STRICT if strict else []):
        a, b = res.get(lo), res.get(hi)
        if not isinstance(a, list) or not isinstance(b, list):
            continue
        for qi, (x, y) in enumerate(zip(a, b)):
            if x and not y:
                out.append((lo, hi, qi))
    return out


def _large_worker(args):
    path_b, path_q, weakly, nq = args
    common.setup_impl_env()
    from inference.inference_manager import InferenceManager
    from inference.queries import Queries
    from parser.Wrappers import parse_belief_base, parse_queries

    bb = parse_belief_base(path_b)
    qs = parse_queries(path_q)
    qd = dict(list(qs.conditionals.items())[:nq])
    res = {}
    for cfg in ops.ALL_CONFIGS + ([("c-inference", "rc2")] if not weakly else []):
        try:
            df = InferenceManager(bb, cfg[0], "z3", cfg[1] or "rc2", weakly).inference(Queries(qd), total_timeout=60)
            ans = [bool(x) for x in df["result"]]
            to = [bool(x) for x in df["inference_timed_out"]]
            pre = [bool(x) for x in df["preprocessing_timed_out"]]
            res[ops.cfg_name(cfg)] = [None if (t or p) else a for a, t, p in zip(ans, to, pre)]
        except AssertionError:
            res[ops.cfg_name(cfg)] = "REFUSE"
        except Exception as e:  # noqa
            res[ops.cfg_name(cfg)] = "EXC:%s:%s" % (type(e).__name__, str(e)[:100])
    return path_b, [str(q) for q in qd.values()], res


def run(tier, seed, broken_proof=False):
    out = None
    extra_viol = []
    strict_cfgs = CONFIGS6 + [("c-inference", "rc2")]
    mon_count = 0
    for modes, cfgs in (([False], strict_cfgs), ([True], CONFIGS6)):
        # model comparison only for the six modelled pairs; c-inference answers are monitored
        r = opsprop.run_ops_property("C08", CONFIGS6, modes, tier, seed, quick_count=110, thorough_count=1200)
        if out is None:
            out = r
        else:
            for k in ("evaluations", "distinct_nontrivial", "traces_validated_against_impl", "disagreements_total"):
                out[k] += r[k]
            out["violations"] += r["violations"]
            for k, v in r["strata"].items():
                out["strata"][k] = out["strata"].get(k, 0) + v
            out["samples"] += r["samples"][:1]
    # implication monitor on fresh cases, c-inference included (strict)
    rng = random.Random(seed + 8)
    for weakly in (False, True):
        cand = ops.corpus_cases(weakly) + ops.gen_ops_cases(rng, 160 if tier == "quick" else 1500, weakly, prefix="m%d" % weakly)
        m0 = common.run_model(cand)
        cases = [c for c in cand if m0[c["id"]]["part"] is not None][: (90 if tier == "quick" else 900)]
        cfgs = strict_cfgs if not weakly else CONFIGS6
        ires = ops.run_impl(cases, cfgs)
        for c in cases:
            res = ires[c["id"]]
            mon_count += len(c["queries"]) * (len(CHAINS) + (0 if weakly else len(CHAINS_STRICT)))
            for (lo, hi, qi) in monitor(c, res, not weakly):
                small = dict(c, queries=[c["queries"][qi]])
                extra_viol.append({"kind": "inclusion", "lower": lo, "upper": hi, "weakly": weakly, "case": small,
                                   "readable": opsprop.describe(small), "found_by": "generated",
                                   "theorem_or_observable": "%s infers the query but %s does not" % (lo, hi)})
    if tier == "thorough":
        jobs = []
        ex = os.path.join(common.REPO, "examples")
        for pb in sorted(glob.glob(os.path.join(ex, "**", "*.cl"), recursive=True)):
            pq = pb[:-3] + ".clq"
            if os.path.exists(pq) and os.path.getsize(pb) < 20000:
                jobs.append((pb, pq, False, 6))
        rng.shuffle(jobs)
        for pb, qtexts, res in ops.pool().imap_unordered(_large_worker, jobs[:60]):
            clean = {k: ([bool(x) for x in v] if isinstance(v, list) and None not in v else None) for k, v in res.items()}
            fake = {"queries": qtexts}
            for (lo, hi, qi) in monitor(fake, {k: v for k, v in clean.items() if v is not None}, True):
                extra_viol.append({"kind": "inclusion-large", "lower": lo, "upper": hi, "file": pb, "query": qtexts[qi], "found_by": "corpus",
                                   "theorem_or_observable": "%s infers the query but %s does not (shipped base)" % (lo, hi)})
            mon_count += len(qtexts) * 7
        out["strata"]["shipped-bases"] = len(jobs[:60])
    # the inclusions relate the implementation's answers to each other: a violated inclusion is the concrete violation; a mere
    # disagreement with the model means the inclusion theorems no longer reach the code (reported only if no inclusion fails)
    corr = []
    for v in out["violations"]:
        v = dict(v, found_by="none", kind="correspondence",
                 theorem_or_observable="model answer != implementation answer (the inclusion theorems of props/C08.v transfer to the code only through this agreement): "
                                       + str(v.get("theorem_or_observable", "")))
        corr.append(v)
    out["violations"] = extra_viol[:20] if extra_viol else corr[:8]
    out["strata"]["implication-monitor-evaluations"] = mon_count
    out["evaluations"] += mon_count
    return out


def replay(payload):
    if payload.get("kind") == "inclusion":
        c = payload["case"]
        res = ops._worker((c, CONFIGS6 + ([("c-inference", "rc2")] if not c["weakly"] else []), {}))[1]
        print(res)
        v = [payload] if monitor(c, res, not c["weakly"]) else []
        return {"evaluations": 1, "distinct_nontrivial": 1, "rule": "replay", "samples": [opsprop.describe(c)], "violations": v}
    return opsprop.replay_ops(payload, CONFIGS6)


def matches_known(f, payload):
    return common.generic_match(f, payload)
