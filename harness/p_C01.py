"""C01 correspondence: p-entailment answers (strict mode) vs the Coq model / definition."""
import common
import opsprop

ASSUMPTIONS = opsprop.ASSUMPTIONS
CONFIGS = [("p-entailment", "")]
MODES = [False]


def run(tier, seed, broken_proof=False):
    return opsprop.run_ops_property("C01", CONFIGS, MODES, tier, seed)


def replay(payload):
    return opsprop.replay_ops(payload, CONFIGS)


def matches_known(f, payload):
    return common.generic_match(f, payload)
