"""Shared machinery of the correspondence check: formula ASTs, printers, generators, the model
runner (extracted Coq model), evidence / replay / known-finding handling.

Formula AST: ('T',) ('F',) ('v', i) ('!', f) ('&', f, g) ('|', f, g) with atom indices into `sig`.
A conditional is (key, B, A); a case is a dict {id, sig, base, queries, weakly}.
"""
import hashlib
import json
import os
import random
import re
import subprocess
import sys
import time

VERIF = os.path.dirname(os.path.dirname(os.path.abspath(__file__)))
REPO = os.environ.get("VERIF_REPO", "/repo")
MODEL_BIN = os.path.join(VERIF, "coq", "extract", "infocf_model")
ATOM_NAMES = ["a", "b", "c", "d", "e", "f", "g", "h", "k", "m", "n", "p", "r", "s", "t", "u"]


def setup_impl_env():
    """Make /repo's working tree importable (nothing cached, nothing copied)."""
    os.environ.setdefault("INFOCF_LOGLEVEL", "ERROR")
    os.environ.setdefault("PYTHONHASHSEED", "0")
    if REPO not in sys.path:
        sys.path.insert(0, REPO)
    import warnings

    warnings.filterwarnings("ignore")


# ----------------------------------------------------------------------------- formulas
T = ("T",)
F = ("F",)


def V(i):
    return ("v", i)


def Not(f):
    return ("!", f)


def And(f, g):
    return ("&", f, g)


def Or(f, g):
    return ("|", f, g)


def ev(f, w):
    t = f[0]
    if t == "T":
        return True
    if t == "F":
        return False
    if t == "v":
        return w[f[1]] if f[1] < len(w) else False
    if t == "!":
        return not ev(f[1], w)
    if t == "&":
        return ev(f[1], w) and ev(f[2], w)
    if t == "|":
        return ev(f[1], w) or ev(f[2], w)
    raise ValueError(f)


def atoms_of(f, acc=None):
    acc = set() if acc is None else acc
    if f[0] == "v":
        acc.add(f[1])
    else:
        for g in f[1:]:
            if isinstance(g, tuple):
                atoms_of(g, acc)
    return acc


def to_prefix(f):
    t = f[0]
    if t in ("T", "F"):
        return t
    if t == "v":
        return "v%d" % f[1]
    if t == "!":
        return "! " + to_prefix(f[1])
    return "%s %s %s" % (t, to_prefix(f[1]), to_prefix(f[2]))


def to_cl(f, sig):
    """Text in the repository's .cl syntax (fully parenthesised binary operators)."""
    t = f[0]
    if t == "T":
        return "Top"
    if t == "F":
        return "Bottom"
    if t == "v":
        return sig[f[1]]
    if t == "!":
        return "!" + to_cl(f[1], sig)
    op = "," if t == "&" else ";"
    return "(" + to_cl(f[1], sig) + op + to_cl(f[2], sig) + ")"


def cond_text(c, sig):
    return "(%s|%s)" % (to_cl(c[1], sig), to_cl(c[2], sig))


def to_coq(f):
    t = f[0]
    if t == "T":
        return "FTop"
    if t == "F":
        return "FBot"
    if t == "v":
        return "(FVar %d)" % f[1]
    if t == "!":
        return "(FNot %s)" % to_coq(f[1])
    return "(%s %s %s)" % ("FAnd" if t == "&" else "FOr", to_coq(f[1]), to_coq(f[2]))


NARY = {"on": False}      # build same-operator chains as ONE n-ary pysmt node (the API allows it; the parser never does)


def _flat(f, op):
    if f[0] == op:
        return _flat(f[1], op) + _flat(f[2], op)
    return [f]


def to_pysmt(f, sig):
    from pysmt.shortcuts import FALSE, TRUE, Symbol
    from pysmt.shortcuts import And as PA
    from pysmt.shortcuts import Not as PN
    from pysmt.shortcuts import Or as PO

    t = f[0]
    if t == "T":
        return TRUE()
    if t == "F":
        return FALSE()
    if t == "v":
        return Symbol(sig[f[1]])
    if t == "!":
        return PN(to_pysmt(f[1], sig))
    if NARY["on"]:
        parts = [to_pysmt(g, sig) for g in _flat(f, t)]
        return PA(*parts) if t == "&" else PO(*parts)
    if t == "&":
        return PA(to_pysmt(f[1], sig), to_pysmt(f[2], sig))
    return PO(to_pysmt(f[1], sig), to_pysmt(f[2], sig))


# ----------------------------------------------------------------------------- generators
def gen_lit(rng, n):
    v = V(rng.randrange(n))
    return v if rng.random() < 0.5 else Not(v)


def gen_formula(rng, n, depth=2, const_p=0.05):
    r = rng.random()
    if r < const_p:
        return T if rng.random() < 0.5 else F
    if depth == 0 or r < 0.45:
        return gen_lit(rng, n)
    r = rng.random()
    if r < 0.2:
        return Not(gen_formula(rng, n, depth - 1, const_p))
    a = gen_formula(rng, n, depth - 1, const_p)
    b = gen_formula(rng, n, depth - 1, const_p)
    return And(a, b) if r < 0.6 else Or(a, b)


def gen_base_random(rng, n, m, depth=1, const_p=0.05):
    out = []
    for i in range(m):
        out.append((i + 1, gen_formula(rng, n, depth, const_p), gen_formula(rng, n, depth, const_p)))
    return out


def gen_base_hierarchy(rng, n, m):
    """Exception hierarchies (birds-like): a chain of sub-classes with alternating properties,
    plus a few random literal conditionals; yields multi-layer consistent bases with ties."""
    atoms = list(range(n))
    rng.shuffle(atoms)
    depth = rng.randrange(2, min(4, n) + 1) if n >= 2 else 1
    chain = atoms[:depth]
    props = atoms[depth:] or [atoms[0]]
    conds = []
    for i in range(1, depth):
        conds.append((V(chain[i - 1]), V(chain[i])))  # sub-class: (c_{i-1} | c_i)
    used = props[: rng.randrange(1, len(props) + 1)]
    if len(used) >= 2 and rng.random() < 0.4:
        # parallel properties whose exception is ONE conjunctive conditional per level: (f|b),(g|b),(!f,!g|p),(b|p);
        # forces impacts whose sum exceeds the number of conditionals; the remaining atoms give free defaults (x|Top)
        par, free = used[:2], used[2:] + [a for a in props if a not in used]
        pol = rng.random() < 0.5
        for i in range(depth):
            lits = [V(p) if (pol ^ (i % 2 == 1)) else Not(V(p)) for p in par]
            if i == 0:
                conds += [(l, V(chain[i])) for l in lits]
            else:
                conds.append((And(lits[0], lits[1]), V(chain[i])))
        for x in free[:2]:
            conds.append((V(x) if rng.random() < 0.5 else Not(V(x)), T))
        rng.shuffle(conds)
        return [(i + 1, b, a) for i, (b, a) in enumerate(conds)]
    for p in used:
        pol = rng.random() < 0.5
        for i in range(depth):
            if rng.random() < 0.75:
                lit = V(p) if (pol ^ (i % 2 == 1)) else Not(V(p))
                conds.append((lit, V(chain[i])))
    while len(conds) < m:
        if rng.random() < 0.5:
            conds.append((gen_lit(rng, n), gen_lit(rng, n)))
        else:
            conds.append((gen_formula(rng, n, 1, 0.0), gen_formula(rng, n, 1, 0.0)))
    rng.shuffle(conds)
    conds = conds[: max(m, 1)]
    return [(i + 1, b, a) for i, (b, a) in enumerate(conds)]


def gen_query(rng, n, extra_atom=False):
    k = n + 1 if extra_atom and rng.random() < 0.15 else n
    r = rng.random()
    if r < 0.35:
        return (gen_lit(rng, k), gen_lit(rng, k))
    if r < 0.7:
        return (gen_formula(rng, k, 1, 0.03), gen_formula(rng, k, 1, 0.03))
    return (gen_formula(rng, k, 2, 0.05), gen_formula(rng, k, 2, 0.05))


def make_case(cid, n, base, queries, weakly=False):
    """n = number of atoms of the model's world list: covers every atom mentioned anywhere."""
    mx = n
    for (_, b, a) in list(base) + list(queries):
        for x in atoms_of(b) | atoms_of(a):
            mx = max(mx, x + 1)
    sig = ATOM_NAMES[:mx]
    assert len({k for (k, _, _) in base}) == len(list(base)), "harness bug: duplicate conditional keys in a generated base"
    assert len({k for (k, _, _) in queries}) == len(list(queries)), "harness bug: duplicate query keys in a generated case"
    return {"id": cid, "n": mx, "sig": sig, "base": list(base), "queries": list(queries), "weakly": bool(weakly)}


def case_key(case):
    return hashlib.sha1(json.dumps([case["n"], case["base"], case["queries"], case["weakly"]], sort_keys=True).encode()).hexdigest()[:12]


# ----------------------------------------------------------------------------- model runner
def case_lines(case):
    out = ["C %s %d %d" % (case["id"], case["n"], 1 if case["weakly"] else 0)]
    for (k, b, a) in case["base"]:
        out.append("D %d %s ; %s" % (k, to_prefix(b), to_prefix(a)))
    for (k, b, a) in case["queries"]:
        out.append("Q %d %s ; %s" % (k, to_prefix(b), to_prefix(a)))
    out.append("E")
    return out


SYSTEMS = ["p-entailment", "system-z", "system-w", "lex_inf"]


def _dec(ch):
    return {"1": True, "0": False, "R": "REFUSE"}[ch]


def _parse_part(part):
    if part == "N":
        return None
    return [[int(x) for x in l.split(",") if x != ""] for l in re.findall(r"\[([0-9,]*)\]", part)]


def _run_bin(text):
    p = subprocess.run([MODEL_BIN], input=text, capture_output=True, text=True, timeout=7200)
    if p.returncode != 0:
        raise RuntimeError("model binary failed: " + p.stderr[-2000:])
    return p.stdout.splitlines()


def run_model(cases):
    """Feed cases to the extracted Coq model; returns {id: {"part","part_idx","model":[{sys:ans}],"spec":[...]}}."""
    text = "\n".join(l for c in cases for l in case_lines(c)) + "\n"
    res = {}
    for line in _run_bin(text):
        cid, part, partidx, rows = line.split("|")
        m, s = [], []
        for row in rows.split():
            a, b = row.split(":")
            m.append({SYSTEMS[i]: _dec(a[i]) for i in range(4)})
            s.append({SYSTEMS[i]: _dec(b[i]) for i in range(4)})
        res[cid] = {"part": _parse_part(part), "part_idx": _parse_part(partidx), "model": m, "spec": s}
    return res


def run_model_diag(dcases):
    """dcases: dicts {id,n,base,facts,extended,uses_facts}; returns {id: None (ValueError) | [5 flags]}."""
    lines = []
    for c in dcases:
        lines.append("G %s %d %d %d" % (c["id"], c["n"], 1 if c["extended"] else 0, 1 if c["uses_facts"] else 0))
        for (k, b, a) in c["base"]:
            lines.append("D %d %s ; %s" % (k, to_prefix(b), to_prefix(a)))
        for f in c["facts"]:
            lines.append("F " + to_prefix(f))
        lines.append("E")
    res = {}
    for line in _run_bin("\n".join(lines) + "\n"):
        cid, flags = line.split("|")
        res[cid] = None if flags == "V" else [{"1": True, "0": False, "-": None}[ch] for ch in flags]
    return res


# ----------------------------------------------------------------------------- implementation side
def build_bb(case, which="base", name="bb"):
    setup_impl_env()
    from inference.belief_base import BeliefBase
    from inference.conditional import Conditional

    sig = case["sig"]
    conds = {}
    NARY["on"] = bool(case.get("nary"))
    try:
        for (k, b, a) in case[which]:
            conds[k] = Conditional(to_pysmt(b, sig), to_pysmt(a, sig), cond_text((k, b, a), sig))
    finally:
        NARY["on"] = False
    # "declared": the signature handed to BeliefBase may leave out atoms the conditionals mention (the API does not forbid it)
    return BeliefBase(list(case.get("declared") or sig), conds, name)


def build_queries(case):
    setup_impl_env()
    from inference.queries import Queries

    return Queries(build_bb(case, "queries", "queries").conditionals)


def impl_partition(case, variant="object", weakly=None):
    """consistency()/consistency_indices() of the working tree, as lists of keys (False -> None)."""
    setup_impl_env()
    from inference.consistency_sat import consistency, consistency_indices

    bb = build_bb(case)
    weakly = case["weakly"] if weakly is None else weakly
    if variant == "object":
        part, _ = consistency(bb, solver="z3", weakly=weakly)
        if part is False:
            return None
        inv = {id(c): k for k, c in bb.conditionals.items()}
        return [[inv[id(c)] for c in layer] for layer in part]
    part, _ = consistency_indices(bb, "z3", weakly=weakly)
    if part is False:
        return None
    return [list(layer) for layer in part]


def impl_infer(case, system, pmaxsat="rc2", weakly=None, bb=None, **kw):
    """InferenceManager.inference on the working tree: list of answers, or a tagged outcome.  bb: an existing BeliefBase object
    of the case to be used again (histories on one object)."""
    setup_impl_env()
    from inference.inference_manager import InferenceManager

    weakly = case["weakly"] if weakly is None else weakly
    bb = build_bb(case) if bb is None else bb
    qs = build_queries(case)
    try:
        mgr = InferenceManager(bb, system, "z3", pmaxsat, weakly)
        df = mgr.inference(qs, **kw)
    except AssertionError as e:
        return "REFUSE"
    except Exception as e:  # noqa
        return "EXC:%s:%s" % (type(e).__name__, str(e)[:120])
    return [bool(x) for x in df["result"]]


# ----------------------------------------------------------------------------- evidence, findings
def load_known_findings():
    path = os.path.join(VERIF, "known_findings.json")
    if not os.path.exists(path):
        return {"findings": [], "fixed": []}
    return json.load(open(path))


def write_replay(prop, payload):
    d = os.path.join(VERIF, "replays")
    os.makedirs(d, exist_ok=True)
    h = hashlib.sha1(json.dumps(payload, sort_keys=True, default=str).encode()).hexdigest()[:10]
    path = os.path.join(d, "%s-%s.json" % (prop, h))
    with open(path, "w") as fh:
        json.dump(payload, fh, indent=1, default=str)
    return path


def write_evidence(prop, tier, seed, coverage, wall_s, violations, assumptions):
    d = os.path.join(VERIF, "evidence")
    os.makedirs(d, exist_ok=True)
    ev_ = {
        "property_id": prop,
        "tier": tier,
        "seed": int(seed),
        "level": "proof",
        "coverage": coverage,
        "assumptions": assumptions,
        "wall_s": round(wall_s, 2),
        "violations": int(violations),
    }
    with open(os.path.join(d, prop + ".json"), "w") as fh:
        json.dump(ev_, fh, indent=1, default=str)


class Timer:
    def __init__(self):
        self.t0 = time.time()

    def s(self):
        return time.time() - self.t0


def generic_match(finding, payload):
    """A known finding lists key/value pairs under "match"; it matches a violation payload carrying the
    same values (the case is identified by its content hash `case_key`)."""
    m = finding.get("match", {})
    for k, v in m.items():
        if k == "case_key":
            if "case" not in payload or case_key(payload["case"]) != v:
                return False
        elif payload.get(k) != v:
            return False
    return bool(m)
