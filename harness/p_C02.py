"""C02 correspondence: System Z answers (strict mode) vs the Coq model / definition."""
import common
import opsprop

ASSUMPTIONS = opsprop.ASSUMPTIONS
CONFIGS = [("system-z", "")]
MODES = [False]


def run(tier, seed, broken_proof=False):
    return opsprop.run_ops_property("C02", CONFIGS, MODES, tier, seed)


def replay(payload):
    return opsprop.replay_ops(payload, CONFIGS)


def matches_known(f, payload):
    return common.generic_match(f, payload)
