#!/venv/bin/python
"""Source translator: selected functions of /repo (Python) -> Gallina, regenerated on every run.

    translate.py [repo]      writes /verif/coq/gen/Src*.v (only files whose content changed)

Fail-closed: any construct outside the supported subset makes the generated file for that source a file that
does not compile (its first command fails with the reason), so every theorem tied to it stops checking.
The subset and its reading are documented in DESIGN.md (section 2.7); the Coq meaning of every primitive the
output uses is in coq/theories/PyLib.v.  Only the standard library is used here.

Reading of Python in short
  * values are immutable on the Coq side; a statement that mutates an object (s.push(), l.append(x), d[k] = v,
    x += 1) re-binds the variable that names it.  Aliasing that this reading would get wrong is refused:
    a list/dict/solver that has been stored somewhere else (appended, assigned to a second name, passed to a
    function that mutates it) may not be mutated or, for the last case, used again under its old name.
  * a block is a chain of `let`s; where control can leave it (return / break / continue / an exception from
    indexing, a failed assert, a call that may raise) it is a value of PyLib.ctl and statements are chained by
    cbind; loops are fold_left (no exits) or for_each / while_true (exits; `while True` runs on fuel).
  * integers are Z, dictionaries association lists in insertion order, `False or a value` is PyLib.pyres.
  * logging statements, doc strings, type casts and `# type:` comments are dropped.
"""
import ast
import os
import sys

VERIF = os.path.dirname(os.path.dirname(os.path.abspath(__file__)))
GEN = os.path.join(VERIF, "coq", "gen")


class Unsupported(Exception):
    pass


def fail(node, msg):
    raise Unsupported("line %s: %s" % (getattr(node, "lineno", "?"), msg))


# ------------------------------------------------------------------------------------------------ types
def tlist(t):
    return ("list", t)


MUTABLE = ("list", "dict", "solver", "wcnf", "isolver")


def is_mutable(t):
    return t in ("solver", "wcnf", "zopt", "isolver") or (isinstance(t, tuple) and t[0] in ("list", "dict", "set", "wdict"))


def coerce(code, t, want):
    """value of static type t where `want` is expected: None / int into Optional[int]"""
    if want == "isolver" and t == "solver" and code == "new_solver":
        return "([] : list icon)", "isolver"          # a pysmt Solver that receives integer constraints
    if isinstance(want, tuple) and want[0] == "res" and t == "bool" and code == "false":
        return "PFalse", want           # `False` where "False or a value" is expected
    if want == "optint":
        if t == "none":
            return "None", "optint"
        if t == "int":
            return "(Some %s)" % code, "optint"
    return code, t


def unify(a, b):
    if a is None:
        return b
    if b is None:
        return a
    if a == b:
        return a
    if isinstance(a, tuple) and isinstance(b, tuple) and a[0] == b[0] and len(a) == len(b):
        if a[0] == "tuple":
            return ("tuple", tuple(unify(x, y) for x, y in zip(a[1], b[1])))
        return (a[0],) + tuple(unify(x, y) for x, y in zip(a[1:], b[1:]))
    raise Unsupported("type clash %r / %r" % (a, b))


# ------------------------------------------------------------------------------------------------ function table
class Fn:
    def __init__(self, name, coq, params, ret=None, cls=None, state=None, ret_union=False, fuel=False, pure=False, mutates=(), abstract=False, returns_state=(), locals_=None, es_mut=(), narrow=(), at_mut=(), drop_calls=(), drop_attr_calls=()):
        self.name, self.coq, self.params, self.ret, self.cls = name, coq, params, ret, cls
        self.state = state or []          # [(key, coqname, type)] read from self.epistemic_state
        self.ret_union = ret_union        # `return False, x` / `return v, x`  ->  (PFalse, x) / (PVal v, x)
        self.fuel = fuel
        self.pure = pure
        self.mutates = set(mutates)       # names of parameters the body mutates
        self.abstract = abstract          # an abstract method: a parameter of every generated function that calls it
        self.uses = []                    # abstract methods this function calls
        self.locals_ = dict(locals_ or {})       # declared types of local variables (Optional[int] cannot be inferred)
        self.returns_state = list(returns_state)   # parameters (solver objects) whose final state is returned with the result
        self.narrow = list(narrow)        # Optional[int] locals read as int under `if x is not None:` (x is not re-bound there)
        self.drop_attr_calls = list(drop_attr_calls)   # self.<attr>.append(...) statements left out (bookkeeping outside the modelled state, named in DESIGN.md)
        self.drop_calls = list(drop_calls)  # methods of self called as statements for bookkeeping outside the modelled state (named in DESIGN.md)
        self.at_mut = list(at_mut)        # [(attr, type)]: attributes of self the function writes; passed in and returned
        self.es_mut = list(es_mut)        # [(key, type)]: entries of self.epistemic_state the function writes; passed in and returned


class Ctx:
    """translation of one function body"""
    cond_class = "Conditional"

    def __init__(self, fn, table, consts):
        self.fn, self.table, self.consts = fn, table, consts
        self.counter = 0
        self.captured = set()

    def fresh(self, base="t"):
        self.counter += 1
        return "%s%d" % (base, self.counter)


def v(name):
    return "v_" + name


def tup(names):
    if not names:
        return "tt"
    if len(names) == 1:
        return v(names[0])
    return "(" + ", ".join(v(x) for x in names) + ")"


def pat(names):
    if not names:
        return "'tt"
    if len(names) == 1:
        return v(names[0])
    return "'(" + ", ".join(v(x) for x in names) + ")"


def target_pat(t, env, ty):
    """pattern for an assignment / loop target; binds names in env"""
    if isinstance(t, ast.Name):
        env[t.id] = ty
        return "_" if t.id == "_" else v(t.id)
    if isinstance(t, ast.Tuple):
        if not (isinstance(ty, tuple) and ty[0] == "tuple" and len(ty[1]) == len(t.elts)):
            fail(t, "tuple target against type %r" % (ty,))
        parts = [target_pat(e, env, et) for e, et in zip(t.elts, ty[1])]
        return "'(" + ", ".join(parts) + ")"
    fail(t, "unsupported target")


# ------------------------------------------------------------------------------------------------ expressions
def wrap_binds(binds, body):
    for name, code, kind in reversed(binds):
        body = "%s (%s) (fun %s => %s)" % (kind, code, name, body)
    return body


def is_logger_call(e):
    return (isinstance(e, ast.Call) and isinstance(e.func, ast.Attribute) and isinstance(e.func.value, ast.Name)
            and e.func.value.id == "logger")


class X:
    """expression translator; returns (code, type, binds)"""

    def __init__(self, ctx):
        self.ctx = ctx

    def tx(self, e, env):
        if not isinstance(e, (ast.Tuple, ast.List)) and any(isinstance(x, ast.Call) and isinstance(x.func, ast.Name) and x.func.id in ("perf_counter_ns", "perf_counter") for x in ast.walk(e)):
            return "tt", "float", []          # wall-clock readings carry no meaning in the model
        m = getattr(self, "e_" + type(e).__name__, None)
        if m is None:
            fail(e, "unsupported expression %s" % type(e).__name__)
        return m(e, env)

    def pure(self, e, env):
        c, t, b = self.tx(e, env)
        if b:
            fail(e, "an expression that may raise is not supported at this position")
        return c, t

    # --- leaves
    def e_Name(self, e, env):
        if e.id in env:
            if e.id in env.get("#dead", ()):
                fail(e, "object %s is used after it was handed to code that mutates it" % e.id)
            return v(e.id), env[e.id], []
        if e.id in self.ctx.consts:
            return self.ctx.consts[e.id]
        fail(e, "unknown name %s" % e.id)

    def e_Constant(self, e, env):
        c = e.value
        if c is True:
            return "true", "bool", []
        if c is False:
            return "false", "bool", []
        if c is None:
            return "tt", "none", []
        if isinstance(c, int):
            return "(%d)%%Z" % c, "int", []
        if isinstance(c, str):
            if self.ctx.consts.get("@strings"):
                if '"' in c or "\\" in c:
                    fail(e, "string constant with a quote or backslash")
                return '("%s"%%string)' % c, "string", []
            return "tt", "str", []
        fail(e, "constant %r" % (c,))

    def e_JoinedStr(self, e, env):
        return "tt", "str", []

    def e_List(self, e, env):
        if not e.elts:
            return "[]", ("list", None), []
        cs, ty, binds, ts = [], None, [], []
        hetero = False
        for x in e.elts:
            c, t, b = self.tx(x, env)
            cs.append(c)
            ts.append(t)
            try:
                ty = unify(ty, t)
            except Unsupported:
                hetero = True
            binds += b
        if hetero:
            return "(" + ", ".join(cs) + ")", ("tuple", tuple(ts)), binds      # a fixed-shape record written as a list
        return "[" + "; ".join(cs) + "]", ("list", ty), binds

    def e_Dict(self, e, env):
        items, vt, binds = [], None, []
        for k, x in zip(e.keys, e.values):
            kc, kt, kb = self.tx(k, env)
            vc, t, vb = self.tx(x, env)
            if kt not in ("int", "string"):
                fail(e, "dictionary literal with keys of type %r" % (kt,))
            kts = kt if not items else (kts if kts == kt else fail(e, "mixed key types"))
            vt = unify(vt, t)
            items.append("(%s, %s)" % (kc, vc))
            binds += kb + vb
        if items and kts == "string":
            return "[" + "; ".join(items) + "]", ("sdict", vt), binds
        return "[" + "; ".join(items) + "]", ("dict", vt), binds

    def e_Tuple(self, e, env):
        cs, ts, binds = [], [], []
        for x in e.elts:
            c, t, b = self.tx(x, env)
            cs.append(c)
            ts.append(t)
            binds += b
        return "(" + ", ".join(cs) + ")", ("tuple", tuple(ts)), binds

    # --- attribute / subscript
    def e_Attribute(self, e, env):
        if isinstance(e.value, ast.Name) and e.value.id == "self" and self.ctx.fn.cls and "self" not in env:
            for key, coq, ty in self.ctx.fn.state:
                if key == "@" + e.attr:
                    return coq, ty, []
            fail(e, "attribute self.%s" % e.attr)
        c, t, b = self.tx(e.value, env)
        if t == "preocf" and e.attr == "ranks":
            return c, ("wdict", "optint"), b
        if t == "ptree" and e.attr in ("left", "right"):
            nm = self.ctx.fresh()
            return nm, "ptree", b + [(nm, "pt_%s %s" % (e.attr, c), "cbind")]
        if t == "ptree" and e.attr == "atom":
            return c, "ptree_atom", b
        if t == "ptree_atom" and e.attr == "text":
            nm = self.ctx.fresh()
            return nm, "string", b + [(nm, "pt_atom_text %s" % c, "cbind")]
        if t == "preocf_s" and e.attr == "ranks":
            return "(fst %s)" % c, ("wdict", "optint"), b
        if t == "preocf_s" and e.attr == "signature":
            return "(snd %s)" % c, ("list", "int"), b
        if t == "cond" and e.attr == "index":
            return "(ckz %s)" % c, "int", b
        table = {("cond", "antecedence"): ("cante", "form"), ("cond", "consequence"): ("ccons", "form"),
                 ("bb", "conditionals"): ("bb_conditionals", ("dict", "cond")),
                 ("bb", "signature"): (None, "str"), ("bb", "name"): (None, "str"),
                 ("wcnf", "hard"): ("w_hard", ("list", ("list", "int")))}
        if (t, e.attr) in table:
            f, rt = table[(t, e.attr)]
            return ("tt" if f is None else "(%s %s)" % (f, c)), rt, b
        fail(e, "attribute .%s of %r" % (e.attr, t))

    def state_key(self, e):
        """self.epistemic_state["k"] -> k"""
        if (isinstance(e, ast.Subscript) and isinstance(e.value, ast.Attribute) and isinstance(e.value.value, ast.Name)
                and e.value.value.id == "self" and e.value.attr == "epistemic_state"
                and isinstance(e.slice, ast.Constant) and isinstance(e.slice.value, str)):
            return e.slice.value
        # a plain function that receives the epistemic state as its parameter `epistemic_state`
        if (isinstance(e, ast.Subscript) and isinstance(e.value, ast.Name) and e.value.id == "epistemic_state" and self.ctx.fn.cls is None
                and any(p[0] == "epistemic_state" and p[1] == "esdict" for p in self.ctx.fn.params)
                and isinstance(e.slice, ast.Constant) and isinstance(e.slice.value, str)):
            return e.slice.value
        return None

    def query_slot(self, e):
        """self.epistemic_state["v_cnf_dict"][QUERY_KEY] -> "v_cnf_dict#query" """
        if isinstance(e, ast.Subscript) and isinstance(e.slice, ast.Name) and e.slice.id == "QUERY_KEY":
            k = self.state_key(e.value)
            if k is not None:
                return k + "#query"
        return None

    def e_Subscript(self, e, env):
        k = self.query_slot(e) or self.state_key(e)
        if k is not None:
            for key, coq, ty in self.ctx.fn.state:
                if key == k:
                    if ("$" + key) in env.get("#dead", ()):
                        fail(e, "state entry %s used after mutation" % key)
                    return coq, ty, []
            fail(e, "epistemic_state[%r] is not a declared input of %s" % (k, self.ctx.fn.name))
        c, t, b = self.tx(e.value, env)
        if isinstance(e.slice, ast.Slice):
            if e.slice.lower is None and e.slice.upper is None and e.slice.step is None and isinstance(t, tuple) and t[0] == "list":
                return c, t, b          # l[:] - a fresh copy (values are immutable on the Coq side)
            fail(e, "slices")
        i, it, ib = self.tx(e.slice, env)
        name = self.ctx.fresh()
        if isinstance(t, tuple) and t[0] == "list":
            if it != "int":
                fail(e, "list index of type %r" % (it,))
            return name, t[1], b + ib + [(name, "py_index %s %s" % (c, i), "cbind")]
        if t == "world":
            if it != "int":
                fail(e, "world index of type %r" % (it,))
            return name, "bool", b + ib + [(name, "py_index %s %s" % (c, i), "cbind")]      # one character of the bit string
        if isinstance(t, tuple) and t[0] == "res" and isinstance(t[1], tuple) and t[1][0] == "list":
            n2 = self.ctx.fresh()
            return name, t[1][1], b + ib + [(n2, "py_unres %s" % c, "cbind"), (name, "py_index %s %s" % (n2, i), "cbind")]
        if isinstance(t, tuple) and t[0] == "dict":
            if it != "int":
                fail(e, "dict key of type %r" % (it,))
            return name, t[1], b + ib + [(name, "zdict_get %s %s" % (c, i), "cbind")]
        if isinstance(t, tuple) and t[0] == "sdict":
            if it != "string":
                fail(e, "string-keyed dictionary with a key of type %r" % (it,))
            return name, t[1], b + ib + [(name, "sdict_get %s %s" % (c, i), "cbind")]
        if isinstance(t, tuple) and t[0] == "wdict":
            if it != "world":
                fail(e, "ranking-table key of type %r" % (it,))
            return name, t[1], b + ib + [(name, "wdict_get %s %s" % (c, i), "cbind")]
        if isinstance(t, tuple) and t[0] == "opt" and isinstance(t[1], tuple) and t[1][0] == "tuple" and isinstance(e.slice, ast.Constant) and isinstance(e.slice.value, int):
            n2 = self.ctx.fresh()
            b = b + [(n2, "py_unsome %s" % c, "cbind")]
            c, t = n2, t[1]
        if isinstance(t, tuple) and t[0] == "tuple" and isinstance(e.slice, ast.Constant) and isinstance(e.slice.value, int):
            n = len(t[1])
            k = e.slice.value
            if not 0 <= k < n:
                fail(e, "tuple index")
            names = ["_"] * n
            names[k] = "x"
            return "(let '(%s) := %s in x)" % (", ".join(names), c), t[1][k], b + ib
        fail(e, "subscript of %r" % (t,))

    # --- operators
    def e_UnaryOp(self, e, env):
        if isinstance(e.op, ast.Not):
            c, b = self.truth(e.operand, env)
            return "(negb %s)" % c, "bool", b
        if isinstance(e.op, ast.USub):
            c, t, b = self.tx(e.operand, env)
            if t == "int":
                return "(- %s)%%Z" % c, "int", b
        fail(e, "unary operator")

    def truth(self, e, env):
        """truth value of an expression (Python truthiness by static type)"""
        c, t, b = self.tx(e, env)
        if t == "dict" or (isinstance(t, tuple) and t[0] == "dict"):
            return "(negb (is_nil %s))" % c, b
        if t == "bool":
            return c, b
        if isinstance(t, tuple) and t[0] in ("list", "dict", "set"):
            return "(negb (is_nil %s))" % c, b
        if isinstance(t, tuple) and t[0] == "res" and isinstance(t[1], tuple) and t[1][0] == "list":
            return "(res_truthy %s)" % c, b
        if t == "int":
            return "(negb (%s =? 0)%%Z)" % c, b
        if t == "none":
            return "false", b
        fail(e, "truth value of type %r" % (t,))

    def e_BoolOp(self, e, env):
        if isinstance(e.op, ast.Or) and len(e.values) == 2:
            # `x or default` as a value: None or d is d; a list or [] is the list itself
            c0, t0, b0 = self.tx(e.values[0], env)
            if t0 == "none":
                if isinstance(e.values[1], ast.Dict) and not e.values[1].keys:
                    return "(@nil (Z * unit))", ("dict", None), []      # None or {}: an empty dictionary whose use never fixes a value type
                return self.tx(e.values[1], env)
            if isinstance(t0, tuple) and t0[0] == "list" and isinstance(e.values[1], ast.List) and not e.values[1].elts:
                return c0, t0, b0
        op = "&&" if isinstance(e.op, ast.And) else "||"
        parts = []
        binds = []
        if len(e.values) == 2:
            c1, b1 = self.truth(e.values[0], env)
            if (c1 == "false" and op == "&&") or (c1 == "true" and op == "||"):
                return c1, "bool", b1       # statically decided: the second operand is never evaluated
            c2, b2 = self.truth(e.values[1], env)
            if b2 and c1 not in ("true", "false"):
                # the second operand may raise: it is evaluated only when the first does not decide
                nm = self.ctx.fresh()
                rest = wrap_binds(b2, "Next %s" % c2)
                code = ("if %s then %s else Next false" % (c1, rest)) if op == "&&" else ("if %s then Next true else %s" % (c1, rest))
                return nm, "bool", b1 + [(nm, code, "cbind")]
        for k, x in enumerate(e.values):
            c, b = self.truth(x, env)
            if b and k > 0:
                fail(x, "an operand that may raise after a short-circuit operator")
            binds += b
            parts.append(c)
            if (c == "false" and op == "&&") or (c == "true" and op == "||"):
                # statically decided (e.g. `deadline and ...` with deadline None): the remaining operands are never evaluated
                if len(parts) == 1:
                    return c, "bool", binds
                break
        return "(" + (" %s " % op).join(parts) + ")", "bool", binds

    def e_IfExp(self, e, env):
        c, b = self.truth(e.test, env)
        a, ta, ba = self.tx(e.body, env)
        o, to, bo = self.tx(e.orelse, env)
        if ba or bo:
            nm = self.ctx.fresh()
            return nm, unify(ta, to), b + [(nm, "if %s then %s else %s" % (c, wrap_binds(ba, "Next %s" % a), wrap_binds(bo, "Next %s" % o)), "cbind")]
        return "(if %s then %s else %s)" % (c, a, o), unify(ta, to), b

    def e_BinOp(self, e, env):
        l, tl, bl = self.tx(e.left, env)
        r, tr, br = self.tx(e.right, env)
        ops = {ast.Add: "+", ast.Sub: "-", ast.Mult: "*"}
        if tl == "iterm" and tr == "iterm" and isinstance(e.op, ast.Sub):
            return "(IMinus %s %s)" % (l, r), "iterm", bl + br
        if tl == "int" and tr == "int" and type(e.op) in ops:
            return "(%s %s %s)%%Z" % (l, ops[type(e.op)], r), "int", bl + br
        if isinstance(tl, tuple) and tl[0] == "list" and isinstance(tr, tuple) and tr[0] == "list" and isinstance(e.op, ast.Add):
            return "(%s ++ %s)" % (l, r), unify(tl, tr), bl + br
        if isinstance(tl, tuple) and tl[0] == "set" and tl == tr and tl[1] == "int":
            f = {ast.BitAnd: "zset_inter", ast.Sub: "zset_diff", ast.BitOr: "zset_union"}.get(type(e.op))
            if f:
                return "(%s %s %s)" % (f, l, r), tl, bl + br
        if isinstance(tl, tuple) and tl == tr and tl == ("set", ("set", "int")) and isinstance(e.op, ast.BitAnd):
            return "(zsetset_inter %s %s)" % (l, r), tl, bl + br
        if isinstance(tl, tuple) and tl == tr and tl == ("set", ("set", "cond")) and isinstance(e.op, ast.BitAnd):
            return "(csetset_inter %s %s)" % (l, r), tl, bl + br
        fail(e, "binary operator on %r, %r" % (tl, tr))

    def e_Compare(self, e, env):
        if len(e.ops) != 1:
            fail(e, "chained comparison")
        op = e.ops[0]
        L, R = e.left, e.comparators[0]
        # type(x) == list
        if (isinstance(L, ast.Call) and isinstance(L.func, ast.Name) and L.func.id == "type" and isinstance(R, ast.Name)
                and R.id == "list" and isinstance(op, ast.Eq)):
            c, t, b = self.tx(L.args[0], env)
            if isinstance(t, tuple) and t[0] == "list":
                return "true", "bool", b
            if isinstance(t, tuple) and t[0] == "res":
                return "(negb (is_pfalse %s))" % c, "bool", b
            fail(e, "type() test on %r" % (t,))
        l, tl, bl = self.tx(L, env)
        # x is False / x is not False / x == False / x != False   on "False or value"
        if isinstance(R, ast.Constant) and R.value is False and isinstance(tl, tuple) and tl[0] == "res":
            if isinstance(op, (ast.Is, ast.Eq)):
                return "(is_pfalse %s)" % l, "bool", bl
            if isinstance(op, (ast.IsNot, ast.NotEq)):
                return "(negb (is_pfalse %s))" % l, "bool", bl
        if isinstance(R, ast.Constant) and R.value is None and isinstance(op, (ast.Is, ast.IsNot)):
            if tl == "optint":
                return ("(is_none %s)" % l if isinstance(op, ast.Is) else "(negb (is_none %s))" % l), "bool", bl
            if tl == "none":
                return ("true" if isinstance(op, ast.Is) else "false"), "bool", bl
            if tl == "int":
                return ("false" if isinstance(op, ast.Is) else "true"), "bool", bl      # a value the translator typed as an integer is not None
            if isinstance(tl, tuple) and tl[0] == "opt":
                return ("(is_none %s)" % l if isinstance(op, ast.Is) else "(negb (is_none %s))" % l), "bool", bl
            if isinstance(tl, tuple) and tl[0] in ("dict", "list", "wdict"):
                # an attribute that the translator was told holds a container: never None
                return ("false" if isinstance(op, ast.Is) else "true"), "bool", bl
            fail(e, "None test on %r" % (tl,))
        r, tr, br = self.tx(R, env)
        b = bl + br
        if {tl, tr} <= {"int", "optint"} and "optint" in (tl, tr) and isinstance(op, ast.Lt):
            lc, _ = coerce(l, tl, "optint")
            rc, _ = coerce(r, tr, "optint")
            nm = self.ctx.fresh()
            return nm, "bool", b + [(nm, "py_lt_opt %s %s" % (lc, rc), "cbind")]
        if tl == "int" and tr == "int":
            sym = {ast.Eq: "=?", ast.Lt: "<?", ast.LtE: "<=?"}.get(type(op))
            if sym:
                return "(%s %s %s)%%Z" % (l, sym, r), "bool", b
            if isinstance(op, ast.NotEq):
                return "(negb (%s =? %s)%%Z)" % (l, r), "bool", b
            if isinstance(op, ast.Gt):
                return "(%s <? %s)%%Z" % (r, l), "bool", b
            if isinstance(op, ast.GtE):
                return "(%s <=? %s)%%Z" % (r, l), "bool", b
        if tl == "bool" and tr == "bool" and isinstance(op, ast.Is) and isinstance(R, ast.Constant) and R.value in (True, False):
            return "(Bool.eqb %s %s)" % (l, r), "bool", b      # x is False / x is True on a Boolean
        if tl == "bool" and tr == "bool" and isinstance(op, ast.Eq):
            return "(Bool.eqb %s %s)" % (l, r), "bool", b
        if tl == "bool" and tr == "bool" and isinstance(op, ast.NotEq):
            return "(negb (Bool.eqb %s %s))" % (l, r), "bool", b
        if tl == "form" and isinstance(R, ast.Constant) and R.value is False and isinstance(op, ast.Eq):
            return "(FNot %s)" % l, "form", bl       # z3: `expr == False` is the negated expression
        if tl == "cond" and isinstance(tr, tuple) and tr == ("set", "cond") and isinstance(op, (ast.In, ast.NotIn)):
            c = "(cmem %s %s)" % (l, r)
            return (c if isinstance(op, ast.In) else "(negb %s)" % c), "bool", b
        if isinstance(tl, tuple) and tl[0] == "list" and isinstance(R, ast.List) and not R.elts:
            if isinstance(op, ast.Eq):
                return "(is_nil %s)" % l, "bool", b
            if isinstance(op, ast.NotEq):
                return "(negb (is_nil %s))" % l, "bool", b
        if isinstance(tr, tuple) and tr[0] in ("list", "set") and tr[1] == "int" and tl == "int" and isinstance(op, (ast.In, ast.NotIn)):
            c = "(zmem %s %s)" % (l, r)
            return (c if isinstance(op, ast.In) else "(negb %s)" % c), "bool", b
        if isinstance(tr, tuple) and tr[0] == "sdict" and tl == "string" and isinstance(op, (ast.In, ast.NotIn)):
            c = "(sdict_mem %s %s)" % (r, l)
            return (c if isinstance(op, ast.In) else "(negb %s)" % c), "bool", b
        if tr == ("dict", None) and tl == "string" and isinstance(op, (ast.In, ast.NotIn)):
            # a dictionary the translator only knows as the empty literal {}: no key is in it
            return ("false" if isinstance(op, ast.In) else "true"), "bool", b
        if tl == "string" and tr == "string" and isinstance(op, (ast.Eq, ast.NotEq)):
            c = "(String.eqb %s %s)" % (l, r)
            return (c if isinstance(op, ast.Eq) else "(negb %s)" % c), "bool", b
        if isinstance(tr, tuple) and tr[0] == "wdict" and tl == "world" and isinstance(op, (ast.In, ast.NotIn)):
            c = "(wdict_mem %s %s)" % (r, l)
            return (c if isinstance(op, ast.In) else "(negb %s)" % c), "bool", b
        if isinstance(tr, tuple) and tr[0] == "dict" and tl == "int" and isinstance(op, (ast.In, ast.NotIn)):
            c = "(zdict_mem %s %s)" % (r, l)
            return (c if isinstance(op, ast.In) else "(negb %s)" % c), "bool", b
        if isinstance(tl, tuple) and isinstance(tr, tuple) and tl[0] == "set" and tr[0] == "set" and unify(tl, tr) == ("set", "cond") \
                and isinstance(op, (ast.Eq, ast.NotEq)):
            c = "(cset_eqb %s %s)" % (l, r)
            return (c if isinstance(op, ast.Eq) else "(negb %s)" % c), "bool", b
        if isinstance(tl, tuple) and tl == tr and tl == ("list", "int") and isinstance(op, (ast.Eq, ast.NotEq)):
            c = "(zlist_eqb %s %s)" % (l, r)
            return (c if isinstance(op, ast.Eq) else "(negb %s)" % c), "bool", b
        fail(e, "comparison %s on %r, %r" % (type(op).__name__, tl, tr))

    # --- comprehensions
    def comp(self, e, env, elt_fn):
        if len(e.generators) != 1:
            return None
        g = e.generators[0]
        it, tit, bit = self.tx(g.iter, env)
        if isinstance(tit, tuple) and tit[0] in ("list", "set"):
            et = tit[1]
        elif tit == "world":
            et = "bool"
        elif isinstance(tit, tuple) and tit[0] == "dict":
            it, et = "(dict_keys %s)" % it, "int"
        else:
            fail(e, "iteration over %r" % (tit,))
        env2 = dict(env)
        p = target_pat(g.target, env2, et)
        if tit == "world":
            p = "(%s : bool)" % p
            it = "(%s : world)" % it
        conds = []
        for c in g.ifs:
            cc, cb = self.truth(c, env2)
            if cb:
                if len(g.ifs) != 1:
                    fail(c, "several filters one of which may raise")
                nm = self.ctx.fresh()
                bit = bit + [(nm, "filter_m (fun %s => %s) %s" % (p, wrap_binds(cb, "Next %s" % cc), it), "cbind")]
                return nm, p, env2, bit
            conds.append(cc)
        if conds:
            it = "(filter (fun %s => %s) %s)" % (p, " && ".join(conds), it)
        return it, p, env2, bit

    def e_ListComp(self, e, env):
        if len(e.generators) == 2:
            return self.listcomp2(e, env)
        r = self.comp(e, env, None)
        it, p, env2, bit = r
        c, t, b = self.tx(e.elt, env2)
        if b:
            name = self.ctx.fresh()
            return name, ("list", t), bit + [(name, "map_m (fun %s => %s) %s" % (p, wrap_binds(b, "Next %s" % c), it), "cbind")]
        return "(map (fun %s => %s) %s)" % (p, c, it), ("list", t), bit

    def listcomp2(self, e, env):
        """[elt for a in X if c for b in a]  -> flat_map"""
        g1, g2 = e.generators
        it, tit, bit = self.tx(g1.iter, env)
        if not (isinstance(tit, tuple) and tit[0] == "list"):
            fail(e, "iteration over %r" % (tit,))
        env1 = dict(env)
        p1 = target_pat(g1.target, env1, tit[1])
        conds = []
        for c in g1.ifs:
            cc, cb = self.truth(c, env1)
            if cb:
                fail(c, "a filter that may raise")
            conds.append(cc)
        if conds:
            it = "(filter (fun %s => %s) %s)" % (p1, " && ".join(conds), it)
        it2, tit2 = self.pure(g2.iter, env1)
        if g2.ifs or not (isinstance(tit2, tuple) and tit2[0] == "list"):
            fail(e, "inner generator")
        env2 = dict(env1)
        p2 = target_pat(g2.target, env2, tit2[1])
        c, t = self.pure(e.elt, env2)
        return "(flat_map (fun %s => map (fun %s => %s) %s) %s)" % (p1, p2, c, it2, it), ("list", t), bit

    def e_DictComp(self, e, env):
        if len(e.generators) != 1 or e.generators[0].ifs:
            fail(e, "dictionary comprehension with filters or several generators")
        g = e.generators[0]
        it, tit, bit = self.tx(g.iter, env)
        if isinstance(tit, tuple) and tit[0] == "dict":
            env2 = dict(env)
            p = target_pat(g.target, env2, "int")
            kc, kt = self.pure(e.key, env2)
            vc, vt = self.pure(e.value, env2)
            if kt != "int":
                fail(e, "dictionary comprehension with keys of type %r" % (kt,))
            return "(map (fun %s => (%s, %s)) (dict_keys %s))" % (p, kc, vc, it), ("dict", vt), bit
        if tit in (("list", "cond"), ("list", "int"), ("list", ("tuple", ("int", "int")))):
            env2 = dict(env)
            p = target_pat(g.target, env2, tit[1])
            kc, kt = self.pure(e.key, env2)
            vc, vt = self.pure(e.value, env2)
            if kt != "int":
                fail(e, "dictionary comprehension with keys of type %r" % (kt,))
            return "(map (fun %s => (%s, %s)) %s)" % (p, kc, vc, it), ("dict", vt), bit
        if tit != ("list", "world"):
            fail(e, "dictionary comprehension over %r" % (tit,))
        env2 = dict(env)
        p = target_pat(g.target, env2, "world")
        kc, kt = self.pure(e.key, env2)
        if kt != "world":
            fail(e, "dictionary comprehension with keys of type %r" % (kt,))
        vc, vt, vb = self.tx(e.value, env2)
        if vt == "int":
            vc, vt = coerce(vc, vt, "optint")
        if vb:
            nm = self.ctx.fresh()
            return nm, ("wdict", vt), bit + [(nm, "map_m (fun %s => %s) %s" % (p, wrap_binds(vb, "Next (%s, %s)" % (kc, vc)), it), "cbind")]
        return "(map (fun %s => (%s, %s)) %s)" % (p, kc, vc, it), ("wdict", vt), bit

    def quant(self, fname, e, env):
        g = e.args[0]
        if not isinstance(g, (ast.GeneratorExp, ast.ListComp)):
            fail(e, "%s() of something other than a generator" % fname)
        it, p, env2, bit = self.comp(g, env, None)
        c, b = self.truth(g.elt, env2)
        if b:
            fail(e, "a quantifier body that may raise")
        return "(%s (fun %s => %s) %s)" % ("existsb" if fname == "any" else "forallb", p, c, it), "bool", bit

    # --- calls
    def args_of(self, e, fn, env):
        """positional + keyword arguments against the parameter list (self excluded); defaults are not filled in"""
        params = [p for p in fn.params if p[0] != "self"]
        given = {}
        for k, a in enumerate(e.args):
            if k >= len(params):
                fail(e, "too many arguments for %s" % fn.name)
            given[params[k][0]] = a
        for kw in e.keywords:
            if kw.arg is None or kw.arg in given or kw.arg not in [p[0] for p in params]:
                fail(e, "keyword argument %s of %s" % (kw.arg, fn.name))
            given[kw.arg] = kw.value
        out, binds, names = [], [], []
        for p in params:
            pname, pty = p[0], p[1]
            if pname not in given:
                if len(p) > 2:
                    out.append(p[2])
                    names.append(None)
                    continue
                fail(e, "argument %s of %s missing" % (pname, fn.name))
            c, t, b = self.tx(given[pname], env)
            if pty == "symidx":
                if isinstance(given[pname], ast.Constant) and given[pname].value == "query":
                    c, t = "SQuery", "symidx"
                elif t == "int":
                    c, t = "(SIdx %s)" % c, "symidx"
            unify(pty, t)
            out.append(c)
            binds += b
            names.append(given[pname].id if isinstance(given[pname], ast.Name) else None)
        return out, binds, names

    def call_fn(self, e, fn, env, selfarg=None):
        args, binds, names = self.args_of(e, fn, env)
        if selfarg is not None:
            args = [selfarg] + args
        state = []
        for key, coq, ty in fn.state:
            if not any(k == key for k, _, _ in self.ctx.fn.state):
                fail(e, "callee %s needs state entry %s" % (fn.name, key))
            state.append(coq)
        if fn.abstract:
            if fn not in self.ctx.fn.uses:
                self.ctx.fn.uses.append(fn)
            name = self.ctx.fresh("r")
            return name, fn.ret, binds + [(name, "(%s %s)" % (fn.coq, " ".join(args)), "call")]
        if fn.fuel:
            self.ctx.fn.fuel = True
        for u in fn.uses:
            if u not in self.ctx.fn.uses:
                self.ctx.fn.uses.append(u)
        pre = ["n"] + (["fuel"] if fn.fuel else []) + [u.coq for u in fn.uses] + state
        code = "(%s %s)" % (fn.coq, " ".join(pre + args))
        params = [p for p in fn.params if p[0] != "self"]
        for p, nm in zip(params, names):
            if p[0] in fn.mutates and nm is not None and p[0] not in fn.returns_state:
                env.setdefault("#dead", set()).add(nm)
            elif p[0] in fn.mutates:
                pass
        if fn.pure:
            return code, fn.ret, binds
        name = self.ctx.fresh("r")
        if fn.returns_state:
            # the callee hands back the final state of the solver objects it was given: the caller's names are re-bound
            back = []
            for p, nm in zip(params, names):
                if p[0] in fn.returns_state:
                    if nm is None:
                        fail(e, "a solver object passed to %s must be a plain variable" % fn.name)
                    back.append(nm)
                    env.get("#dead", set()).discard(nm)
            return name, fn.ret, binds + [("'(%s, %s)" % (name, tup(back)), code, "call")]
        return name, fn.ret, binds + [(name, code, "call")]

    def e_Call(self, e, env):
        f = e.func
        if isinstance(f, ast.Subscript) and isinstance(f.value, ast.Name) and f.value.id in ("frozenset", "set") and not e.args and not e.keywords:
            return "[]", ("set", None), []
        if isinstance(f, ast.Name):
            return self.call_name(e, f.id, env)
        if isinstance(f, ast.Attribute):
            return self.call_method(e, f, env)
        # getattr(x, "is_symbol", lambda: False)(): is the pysmt term a symbol?
        if (isinstance(f, ast.Call) and isinstance(f.func, ast.Name) and f.func.id == "getattr" and len(f.args) == 3 and not f.keywords
                and not e.args and not e.keywords and isinstance(f.args[1], ast.Constant) and f.args[1].value == "is_symbol"
                and isinstance(f.args[2], ast.Lambda) and not f.args[2].args.args and isinstance(f.args[2].body, ast.Constant) and f.args[2].body.value is False):
            c, t, b = self.tx(f.args[0], env)
            if t != "iterm":
                fail(e, "is_symbol of %r" % (t,))
            return "(iterm_is_sym %s)" % c, "bool", b
        fail(e, "call of a computed function")

    def simple_args(self, e, env, n=None):
        if e.keywords:
            fail(e, "keyword arguments")
        if n is not None and len(e.args) != n:
            fail(e, "expected %d arguments" % n)
        cs, ts, binds = [], [], []
        for a in e.args:
            c, t, b = self.tx(a, env)
            cs.append(c)
            ts.append(t)
            binds += b
        return cs, ts, binds

    def call_name(self, e, name, env):
        if name in ("any", "all") and len(e.args) == 1 and not e.keywords:
            return self.quant(name, e, env)
        if name == "cast" and len(e.args) == 2:
            return self.tx(e.args[1], env)
        if name == "len":
            cs, ts, b = self.simple_args(e, env, 1)
            if isinstance(ts[0], tuple) and ts[0][0] == "tuple":
                return "(%d)%%Z" % len(ts[0][1]), "int", b      # a fixed-shape record
            if ts[0] is None or ts[0] == "world" or (isinstance(ts[0], tuple) and ts[0][0] in ("list", "dict", "set")):
                return "(py_len %s)" % cs[0], "int", b      # an unknown type is left to Coq's type checker
            fail(e, "len of %r" % (ts[0],))
        if (name == "hasattr" and len(e.args) == 2 and isinstance(e.args[0], ast.Name) and e.args[0].id == "self" and isinstance(e.args[1], ast.Constant)
                and any(k == "@" + e.args[1].value for k, _, _ in self.ctx.fn.state)):
            return "true", "bool", []        # an attribute the function is given as part of the object's state
        if name == "hasattr" and len(e.args) == 2 and isinstance(e.args[1], ast.Constant) and e.args[1].value == "index":
            c, t, b = self.tx(e.args[0], env)
            if t == "cond":
                return "true", "bool", b        # every Conditional carries the attribute (set in __init__)
            fail(e, "hasattr on %r" % (t,))
        if name == "int" and len(e.args) == 1 and not e.keywords:
            c, t, b = self.tx(e.args[0], env)
            if t == "int":
                return c, "int", b
            if t == "bool":
                return "(if %s then (1)%%Z else (0)%%Z)" % c, "int", b      # int('1') / int('0') of a character of a bit string
            fail(e, "int() of %r" % (t,))
        if name == "enumerate" and len(e.args) == 1 and not e.keywords:
            c, t, b = self.tx(e.args[0], env)
            if not (isinstance(t, tuple) and t[0] == "list"):
                fail(e, "enumerate of %r" % (t,))
            return "(py_enumerate %s)" % c, ("list", ("tuple", ("int", t[1]))), b
        if name == "bool":
            c, b = self.truth(e.args[0], env)
            return c, "bool", b
        if name in ("PEntailment", "SystemZ", "SystemW", "SystemWZ3", "CInference", "LexInf", "LexInfZ3") and len(e.args) == 1 and not e.keywords \
                and isinstance(e.args[0], ast.Name) and env.get(e.args[0].id) == "esdict":
            return "Op" + name, "opclass", []          # the operator object is identified by its class
        if name == "str" and self.ctx.consts.get("@strings") and len(e.args) == 1 and not e.keywords:
            c, t, b = self.tx(e.args[0], env)
            if t == "string":
                return c, "string", b
            return "tt", "str", b
        if name == "str":
            return "tt", "str", []
        if name == "min" and len(e.args) == 1 and not e.keywords and isinstance(e.args[0], (ast.GeneratorExp, ast.ListComp)):
            c, t, b = self.e_ListComp(e.args[0], env)
            if t != ("list", "int"):
                fail(e, "min of %r" % (t,))
            nm = self.ctx.fresh()
            return nm, "int", b + [(nm, "py_min %s" % c, "cbind")]
        if name == "min" and len(e.args) == 2 and not e.keywords:
            cs, ts, b = self.simple_args(e, env, 2)
            if not set(ts) <= {"int", "optint"}:
                fail(e, "min of %r" % (ts,))
            a0, _ = coerce(cs[0], ts[0], "optint")
            a1, _ = coerce(cs[1], ts[1], "optint")
            nm = self.ctx.fresh()
            return nm, "int", b + [(nm, "py_min2_opt %s %s" % (a0, a1), "cbind")]      # None in a comparison: TypeError
        if name == "range" and len(e.args) == 1 and not e.keywords:
            c, t, b = self.tx(e.args[0], env)
            if t != "int":
                fail(e, "range of %r" % (t,))
            return "(zrange %s)" % c, ("list", "int"), b
        if name == "max" and len(e.args) == 1 and len(e.keywords) == 1 and e.keywords[0].arg == "default":
            c, t, b = self.tx(e.args[0], env)
            d, td, bd = self.tx(e.keywords[0].value, env)
            if isinstance(t, tuple) and t[0] == "dict" and td == "int":
                return "(zmax_default (dict_keys %s) %s)" % (c, d), "int", b + bd
            if t == ("list", "int") and td == "int":
                return "(zmax_default %s %s)" % (c, d), "int", b + bd
            fail(e, "max of %r" % (t,))
        if name in ("And", "Or", "Implies") and len(e.args) != 1:
            cs, ts, b = self.simple_args(e, env, 2)
            if ts != ["form", "form"]:
                fail(e, "%s of %r" % (name, ts))
            return "(%s %s %s)" % ({"And": "FAnd", "Or": "FOr", "Implies": "FImplies"}[name], cs[0], cs[1]), "form", b
        if name == "Not":
            cs, ts, b = self.simple_args(e, env, 1)
            if ts == ["icon"]:
                return "(INot %s)" % cs[0], "icon", b
            if ts != ["form"]:
                fail(e, "Not of %r" % ts)
            return "(FNot %s)" % cs[0], "form", b
        if name in ("is_sat", "is_unsat"):
            cs, ts, b = self.simple_args(e, env, 1)
            if ts != ["form"]:
                fail(e, "%s of %r" % (name, ts))
            return "(%s n %s)" % ("f_sat" if name == "is_sat" else "f_unsat", cs[0]), "bool", b
        if name in ("create_optimizer", "TseitinTransformation"):
            a = e.args
            if e.keywords or len(a) != 1 or not (isinstance(a[0], ast.Attribute) and isinstance(a[0].value, ast.Name)
                                                  and a[0].value.id == "self" and a[0].attr == "epistemic_state"):
                fail(e, "%s(...) of something other than self.epistemic_state" % name)
            return "tt", ("optimizer" if name == "create_optimizer" else "tseitin"), []
        if name == "Symbol" and len(e.args) == 2 and not e.keywords and isinstance(e.args[0], ast.JoinedStr):
            js = e.args[0].values
            if len(js) == 2 and isinstance(js[0], ast.Constant) and isinstance(js[1], ast.FormattedValue):
                c, t, b = self.tx(js[1].value, env)
                pre = js[0].value
                if pre == "eta_" and t == "int":
                    return "(ISym (SEta %s))" % c, "iterm", b
                if pre in ("mv_", "mf_"):
                    if t == "int":
                        c, t = "(SIdx %s)" % c, "symidx"
                    if t == "symidx":
                        return "(ISym (%s %s))" % ("SMv" if pre == "mv_" else "SMf", c), "iterm", b
            fail(e, "Symbol with this name pattern")
        if name == "_gamma" and len(e.args) == 1 and not e.keywords and isinstance(e.args[0], ast.JoinedStr):
            if not self.ctx.consts.get("@gamma_is_symbol"):
                fail(e, "_gamma is not the caching wrapper of Symbol(name, INT) the translator knows")
            js = e.args[0].values
            if len(js) == 2 and isinstance(js[0], ast.Constant) and isinstance(js[1], ast.FormattedValue) and js[0].value in ("gamma-_", "gamma+_"):
                c, t, b = self.tx(js[1].value, env)
                if t == "int":
                    return "(ISym (%s %s))" % ("SGm" if js[0].value == "gamma-_" else "SGp", c), "iterm", b
            fail(e, "_gamma with this name pattern")
        if name == "Int" and len(e.args) == 1 and not e.keywords:
            c, t, b = self.tx(e.args[0], env)
            if t != "int":
                fail(e, "Int of %r" % (t,))
            return "(IInt %s)" % c, "iterm", b
        if name == "Plus" and len(e.args) == 1 and not e.keywords:
            c, t, b = self.tx(e.args[0], env)
            if t != ("list", "iterm"):
                fail(e, "Plus of %r" % (t,))
            return "(IPlus %s)" % c, "iterm", b
        if name in ("LE", "LT", "GE", "GT") and len(e.args) == 2 and not e.keywords:
            cs, ts, b = self.simple_args(e, env, 2)
            if ts != ["iterm", "iterm"]:
                fail(e, "%s of %r" % (name, ts))
            return "(I%s %s %s)" % (name, cs[0], cs[1]), "icon", b
        if name in ("Not", "And") and len(e.args) == 1 and not e.keywords:
            c, t, b = self.tx(e.args[0], env)
            if name == "Not" and t == "icon":
                return "(INot %s)" % c, "icon", b
            if name == "And" and t == ("list", "icon"):
                return "(IAnd %s)" % c, "icon", b
            if name == "And" and t == ("list", "form"):
                return "(f_and_list %s)" % c, "form", b
        if name == "str" and len(e.args) == 1 and not e.keywords:
            c, t, b = self.tx(e.args[0], env)
            if t == "string":
                return c, "string", b
            return "tt", "str", b
        if name == "Bool" and len(e.args) == 1 and isinstance(e.args[0], ast.Constant) and e.args[0].value in (True, False):
            return ("FTop" if e.args[0].value else "FBot"), "form", []
        if name == "Symbol" and len(e.args) == 2 and isinstance(e.args[1], ast.Name) and e.args[1].id == "BOOL":
            c, t, b = self.tx(e.args[0], env)
            fn = self.ctx.table.get("@name_index")
            if t != "string" or fn is None:
                fail(e, "Symbol of %r" % (t,))
            if fn not in self.ctx.fn.uses:
                self.ctx.fn.uses.append(fn)
            nm = self.ctx.fresh("r")
            return "(FVar (Z.to_nat %s))" % nm, "form", b + [(nm, "(%s %s)" % (fn.coq, c), "call")]
        if name in ("FALSE", "TRUE") and not e.args and not e.keywords:
            return ("FBot" if name == "FALSE" else "FTop"), "form", []
        if name == "dict" and len(e.args) == 1 and not e.keywords:
            c, t, b = self.tx(e.args[0], env)
            if isinstance(t, tuple) and t[0] == "dict":
                return c, t, b          # a copy (values are immutable on the Coq side)
            fail(e, "dict of %r" % (t,))
        if name == "dict" and not e.args and not e.keywords:
            return "[]", ("dict", None), []
        if name == "makeOptimizer" and not e.args and not e.keywords:
            return "zopt_new", "zopt", []
        if name == "is_true" and len(e.args) == 1 and not e.keywords:
            c, t, b = self.tx(e.args[0], env)
            if t != "bool":
                fail(e, "is_true of %r" % (t,))
            return c, "bool", b
        if name == "Or" and len(e.args) == 1 and not e.keywords:
            c, t, b = self.tx(e.args[0], env)
            if t != ("list", "form"):
                fail(e, "Or of %r" % (t,))
            return "(f_or_list %s)" % c, "form", b
        if name == "WCNF":
            if e.args or e.keywords:
                fail(e, "WCNF with arguments")
            return "wcnf_new", "wcnf", []
        if name == "Solver":
            for kw in e.keywords:
                if kw.arg != "name":
                    fail(e, "Solver(%s=...)" % kw.arg)
                self.tx(kw.value, env)
            if e.args:
                fail(e, "Solver with positional arguments")
            return "new_solver", "solver", []
        if name == "Conditional" and not e.args and {k.arg for k in e.keywords} == {"consequence", "antecedence", "textRepresentation"}:
            kw = {k.arg: k.value for k in e.keywords}
            c1, t1, b1 = self.tx(kw["consequence"], env)
            c2, t2, b2 = self.tx(kw["antecedence"], env)
            self.tx(kw["textRepresentation"], env)
            if (t1, t2) != ("form", "form"):
                fail(e, "Conditional of %r" % ((t1, t2),))
            return "(mk_cond %s %s)" % (c1, c2), "cond", b1 + b2
        if name == "Conditional":
            if e.keywords or len(e.args) != 3:
                fail(e, "Conditional(...) with other than three positional arguments")
            c1, t1, b1 = self.tx(e.args[0], env)
            c2, t2, b2 = self.tx(e.args[1], env)
            self.tx(e.args[2], env)
            if (t1, t2) != ("form", "form"):
                fail(e, "Conditional of %r" % ((t1, t2),))
            return "(mk_cond %s %s)" % (c1, c2), "cond", b1 + b2
        if name == "BeliefBase":
            if e.keywords or len(e.args) != 3:
                fail(e, "BeliefBase(...)")
            self.tx(e.args[0], env)
            c, t, b = self.tx(e.args[1], env)
            self.tx(e.args[2], env)
            if t != ("dict", "cond"):
                fail(e, "BeliefBase of %r" % (t,))
            if isinstance(e.args[1], ast.Name):
                self.ctx.captured.add(e.args[1].id)
            return "(Build_pybase %s)" % c, "bb", b
        if name == "frozenset" or name == "set":
            if not e.args and not e.keywords:
                return "[]", ("set", None), []
            cs, ts, b = self.simple_args(e, env, 1)
            t = ts[0]
            if t == ("list", "int") or t == ("set", "int"):
                return "(zset_of %s)" % cs[0], ("set", "int"), b
            if t == ("list", ("set", "int")):
                return "(zsetset_of %s)" % cs[0], ("set", ("set", "int")), b
            if t == ("list", ("list", "int")):
                return "(zsetset_of (map zset_of %s))" % cs[0], ("set", ("set", "int")), b
            if t == ("list", "cond") or t == ("set", "cond"):
                return "(cset_of %s)" % cs[0], ("set", "cond"), b
            fail(e, "%s of %r" % (name, t))
        if name == "list":
            cs, ts, b = self.simple_args(e, env, 1)
            if isinstance(ts[0], tuple) and ts[0][0] in ("set", "list"):
                return cs[0], ("list", ts[0][1]), b
            fail(e, "list of %r" % (ts[0],))
        if name == "sorted" and len(e.args) == 1 and len(e.keywords) == 1 and e.keywords[0].arg == "key" \
                and isinstance(e.keywords[0].value, ast.Name) and e.keywords[0].value.id == "len":
            c, t, b = self.tx(e.args[0], env)
            if isinstance(t, tuple) and t[0] == "list" and isinstance(t[1], tuple) and t[1][0] in ("set", "list"):
                return "(sort_by_len %s)" % c, t, b
            fail(e, "sorted(key=len) of %r" % (t,))
        if name == "sorted" and len(e.args) == 1 and not e.keywords:
            c, t, b = self.tx(e.args[0], env)
            if t in (("list", "int"), ("set", "int")):
                return "(zsort %s)" % c, ("list", "int"), b
            fail(e, "sorted of %r" % (t,))
        if name == "__unopt" and len(e.args) == 1:
            # inserted by the translator under `if x is not None:` - the value of x there
            c, t, b = self.tx(e.args[0], env)
            if isinstance(t, tuple) and t[0] == "opt":
                nm = self.ctx.fresh()
                return nm, t[1], b + [(nm, "py_unsome %s" % c, "cbind")]
            if t != "optint":
                fail(e, "narrowing of %r" % (t,))
            nm = self.ctx.fresh()
            return nm, "int", b + [(nm, "py_unopt %s" % c, "cbind")]
        if name == "isinstance" and len(e.args) == 2 and isinstance(e.args[1], ast.Name) and e.args[1].id in ("FNode", "str", "list"):
            c, t, b = self.tx(e.args[0], env)
            kind = e.args[1].id
            if isinstance(t, tuple) and t[0] == "list" and kind == "list":
                return "true", "bool", b
            if t == "form":
                return ("true" if kind == "FNode" else "false"), "bool", b
            if isinstance(t, tuple) and t[0] == "res" and kind == "list":
                return "(negb (is_pfalse %s))" % c, "bool", b
            fail(e, "isinstance(_, %s) of %r" % (kind, t))
        if name == "isinstance" and len(e.args) == 2 and isinstance(e.args[1], ast.Name) and e.args[1].id == "int":
            c, t, b = self.tx(e.args[0], env)
            if t == "int":
                return "true", "bool", b
            fail(e, "isinstance(_, int) of %r" % (t,))
        if name in env and isinstance(env[name], tuple) and env[name][0] == "fn":
            # a callable parameter: an unknown function that may raise
            cs, ts, b = self.simple_args(e, env, len(env[name][1]))
            if tuple(ts) != tuple(env[name][1]):
                fail(e, "call of %s with %r" % (name, ts))
            nm = self.ctx.fresh("r")
            return nm, env[name][2], b + [(nm, "(%s %s)" % (v(name), " ".join(cs)), "call")]
        fn = self.ctx.table.get(name)
        if fn is not None and fn.cls is None:
            return self.call_fn(e, fn, env)
        fail(e, "call of %s" % name)

    def call_method(self, e, f, env):
        # "".join([chars]): the bit string made of the characters
        if isinstance(f.value, ast.Constant) and f.value.value == "" and f.attr == "join" and len(e.args) == 1 and not e.keywords:
            c, t, b = self.tx(e.args[0], env)
            if t != ("list", "bool"):
                fail(e, "join of %r" % (t,))
            return c, "world", b
        # PreOCF.init_custom(ranks, None, signature, metadata): the new object is its ranks table and its signature
        if isinstance(f.value, ast.Name) and f.value.id == "PreOCF" and f.attr == "init_custom" and len(e.args) == 4 and not e.keywords:
            rc, rt, rb = self.tx(e.args[0], env)
            sc, st, sb = self.tx(e.args[2], env)
            if not (isinstance(rt, tuple) and rt[0] == "wdict") or st != ("list", "int"):
                fail(e, "init_custom of %r" % ((rt, st),))
            if not (isinstance(e.args[1], ast.Constant) and e.args[1].value is None):
                fail(e, "init_custom with a belief base")
            return "(%s, %s)" % (rc, sc), ("tuple", (rt, st)), rb + sb
        # Conditional_z3.translate_from_existing(c): the same conditional over z3 terms
        if isinstance(f.value, ast.Name) and f.value.id == "Conditional_z3" and f.attr == "translate_from_existing" \
                and len(e.args) == 1 and not e.keywords:
            c, t, b = self.tx(e.args[0], env)
            if t != "cond":
                fail(e, "translate_from_existing of %r" % (t,))
            return c, "cond", b
        # self.get_all_xi_i(opt, part): by contract (PyLib.z3_all_xi); the assertions it leaves on the current frame are popped by the caller
        if isinstance(f.value, ast.Name) and f.value.id == "self" and self.ctx.fn.cls and "self" not in env \
                and f.attr == "get_all_xi_i" and len(e.args) == 2 and not e.keywords \
                and ("%s.get_all_xi_i" % self.ctx.fn.cls) not in self.ctx.table:
            oc, ot, ob = self.tx(e.args[0], env)
            pc, pt, pb = self.tx(e.args[1], env)
            if ot != "solver" or pt != ("list", "cond"):
                fail(e, "get_all_xi_i of %r, %r" % (ot, pt))
            return "(z3_all_xi n %s %s)" % (oc, pc), ("set", ("set", "cond")), ob + pb
        # self.symbolize_bitvec(world): the literals of a world
        if isinstance(f.value, ast.Name) and f.value.id == "self" and self.ctx.fn.cls and "self" not in env \
                and f.attr == "symbolize_bitvec" and len(e.args) == 1 and not e.keywords:
            c, t, b = self.tx(e.args[0], env)
            if t != "world":
                fail(e, "symbolize_bitvec of %r" % (t,))
            return "(world_lits %s)" % c, ("list", "form"), b
        # self.method(...)
        if isinstance(f.value, ast.Name) and f.value.id == "self" and self.ctx.fn.cls and "self" not in env:
            fn = self.ctx.table.get("%s.%s" % (self.ctx.fn.cls, f.attr))
            if fn is None:
                fail(e, "method self.%s" % f.attr)
            return self.call_fn(e, fn, env)
        # self.epistemic_state.get("weakly", False)
        if (isinstance(f.value, ast.Attribute) and isinstance(f.value.value, ast.Name) and f.value.value.id == "self"
                and f.value.attr == "epistemic_state" and f.attr == "get" and len(e.args) == 2
                and isinstance(e.args[0], ast.Constant)):
            for key, coq, ty in self.ctx.fn.state:
                if key == e.args[0].value:
                    return coq, ty, []
            fail(e, "epistemic_state.get(%r)" % e.args[0].value)
        c, t, b = self.tx(f.value, env)
        if isinstance(t, tuple) and t[0] == "wdict" and f.attr == "keys" and not e.args and not e.keywords:
            return "(wdict_keys %s)" % c, ("list", "world"), b
        if t == ("wdict", "optint") and f.attr == "get" and len(e.args) == 1 and not e.keywords:
            kc, kt, kb = self.tx(e.args[0], env)
            if kt != "world":
                fail(e, "ranking-table key of type %r" % (kt,))
            return "(wdict_getopt %s %s)" % (c, kc), "optint", b + kb
        if isinstance(t, tuple) and t[0] == "sdict" and f.attr == "items" and not e.args and not e.keywords:
            return c, ("list", ("tuple", ("string", t[1]))), b
        if isinstance(t, tuple) and t[0] == "wdict" and f.attr == "items" and not e.args and not e.keywords:
            return c, ("list", ("tuple", ("world", t[1]))), b
        if isinstance(t, tuple) and t[0] == "dict" and not e.args and not e.keywords:
            if f.attr == "values":
                return "(dict_values %s)" % c, ("list", t[1]), b
            if f.attr == "keys":
                return "(dict_keys %s)" % c, ("list", "int"), b
            if f.attr == "items":
                return c, ("list", ("tuple", ("int", t[1]))), b
            if f.attr == "copy":
                return c, t, b
        if isinstance(t, tuple) and t[0] == "list" and f.attr == "copy" and not e.args:
            return c, t, b
        if t == "wcnf" and f.attr == "copy" and not e.args and not e.keywords:
            return c, t, b
        if t == "optimizer" and f.attr == "minimal_correction_subsets":
            given = {}
            names = ["wcnf", "ignore", "deadline"]
            for k_, a_ in enumerate(e.args):
                given[names[k_]] = a_
            for kw in e.keywords:
                if kw.arg not in names or kw.arg in given:
                    fail(e, "minimal_correction_subsets(%s=...)" % kw.arg)
                given[kw.arg] = kw.value
            if "wcnf" not in given:
                fail(e, "minimal_correction_subsets without a wcnf")
            wc, wt, wb = self.tx(given["wcnf"], env)
            if wt != "wcnf":
                fail(e, "minimal_correction_subsets of %r" % (wt,))
            if "ignore" in given:
                ic, it_, ib = self.tx(given["ignore"], env)
                if it_ != ("list", "int"):
                    fail(e, "ignore list of type %r" % (it_,))
            else:
                ic, ib = "[]", []     # the default argument of the real method
            if "deadline" in given:
                self.tx(given["deadline"], env)
            nf = None
            for key, coq, ty in self.ctx.fn.state:
                if key == "nf_cnf_dict":
                    nf = coq
            if nf is None:
                fail(e, "minimal_correction_subsets needs the state entry nf_cnf_dict")
            return "(mcs n %s %s %s)" % (nf, wc, ic), ("list", ("list", "int")), b + wb + ib
        if t == "tseitin" and f.attr == "query_to_cnf" and len(e.args) == 1 and not e.keywords:
            qc, qt, qb = self.tx(e.args[0], env)
            if qt != "cond":
                fail(e, "query_to_cnf of %r" % (qt,))
            return "(cnf_of_query %s)" % qc, ("tuple", (("list", "sclause"), ("list", "sclause"))), b + qb
        if t in ("preocf", "preocf_s") and f.attr == "world_satisfies_conditionalization" and len(e.args) == 2 and not e.keywords:
            fn = self.ctx.table.get("PreOCF.world_satisfies_conditionalization")
            if fn is None or not fn.pure:
                fail(e, "world_satisfies_conditionalization is not available as a plain definition")
            wc, wt, wb = self.tx(e.args[0], env)
            fc, ft, fb = self.tx(e.args[1], env)
            if (wt, ft) != ("world", "form"):
                fail(e, "world_satisfies_conditionalization of %r" % ((wt, ft),))
            return "(%s n %s %s)" % (fn.coq, wc, fc), "bool", b + wb + fb
        if t in ("preocf", "preocf_s") and f.attr == "rank_world" and len(e.args) == 1 and not e.keywords:
            fn = self.ctx.table.get("PreOCF.rank_world")
            wc, wt, wb = self.tx(e.args[0], env)
            if fn is None or wt != "world":
                fail(e, "rank_world of %r" % (wt,))
            if fn not in self.ctx.fn.uses:
                self.ctx.fn.uses.append(fn)
            nm = self.ctx.fresh("r")
            return nm, "int", b + wb + [(nm, "(%s %s)" % (fn.coq, wc), "call")]
        if t == "zopt" and f.attr == "check" and not e.args and not e.keywords:
            return "(o_check n %s)" % c, "bool", b
        if t == "zopt" and f.attr == "model" and not e.args and not e.keywords:
            return "(o_model n %s)" % c, "world", b
        if t == "world" and f.attr == "eval" and len(e.args) == 1 and not e.keywords:
            fc, ft, fb = self.tx(e.args[0], env)
            if ft != "form":
                fail(e, "eval of %r" % (ft,))
            return "(eval %s %s)" % (c, fc), "bool", b + fb
        if t == "ptree" and f.attr == "formula" and not e.args and not e.keywords:
            nm = self.ctx.fresh()
            return nm, "ptree", b + [(nm, "pt_formula %s" % c, "cbind")]
        if t == "str" and f.attr == "replace" and len(e.args) == 2 and not e.keywords:
            return "tt", "str", b        # text used for display only
        if t == "form" and not e.keywords:
            if f.attr == "is_symbol" and not e.args:
                return "(f_is_symbol %s)" % c, "bool", b
            if f.attr == "is_not" and not e.args:
                return "(f_is_not %s)" % c, "bool", b
            if f.attr == "symbol_name" and not e.args:
                nm = self.ctx.fresh()
                return nm, "int", b + [(nm, "f_symbol_name %s" % c, "cbind")]
            if f.attr == "arg" and len(e.args) == 1 and isinstance(e.args[0], ast.Constant) and e.args[0].value == 0:
                nm = self.ctx.fresh()
                return nm, "form", b + [(nm, "f_arg0 %s" % c, "cbind")]
        if t == "pool" and f.attr == "id" and len(e.args) == 1 and not e.keywords:
            fn = self.ctx.table.get("@pool_id")
            kc, kt, kb = self.tx(e.args[0], env)
            if fn is None or kt != "int":
                fail(e, "pool.id of %r" % (kt,))
            if fn not in self.ctx.fn.uses:
                self.ctx.fn.uses.append(fn)
            nm = self.ctx.fresh("r")
            return nm, "int", b + kb + [(nm, "(%s %s)" % (fn.coq, kc), "call")]
        if t == "isolver" and f.attr == "solve" and not e.args and not e.keywords:
            fn = self.ctx.table.get("@isolve")        # the SMT solver on integer constraints: an oracle parameter
            if fn is None:
                fail(e, "no integer solver oracle declared")
            if fn not in self.ctx.fn.uses:
                self.ctx.fn.uses.append(fn)
            nm = self.ctx.fresh("r")
            return nm, "bool", b + [(nm, "(%s %s)" % (fn.coq, c), "call")]
        if t == "solver" and f.attr in ("solve", "check") and not e.args and not e.keywords:
            return "(s_solve n %s)" % c, "bool", b      # z3's check(): sat = True, unsat = False ("unknown" is outside the model)
        if isinstance(t, tuple) and t[0] == "set" and f.attr == "issubset":
            cs, ts, b2 = self.simple_args(e, env, 1)
            if t == ("set", "int") and ts[0] == t:
                return "(zsubset %s %s)" % (c, cs[0]), "bool", b + b2
            if t == ("set", "cond") and ts[0] == t:
                return "(csubset %s %s)" % (c, cs[0]), "bool", b + b2
            fail(e, "issubset on %r" % (ts[0],))
        if t == "cond":
            fn = self.ctx.table.get("%s.%s" % (self.ctx.cond_class, f.attr))
            if fn is not None:
                c2, t2, b2 = self.call_fn(e, fn, env, selfarg=c)
                return c2, t2, b + b2
        fail(e, "method .%s of %r" % (f.attr, t))


# ------------------------------------------------------------------------------------------------ statements
def assigned(stmts):
    out = []

    def add(n):
        if n not in out and n != "_":
            out.append(n)

    def tgt(t):
        if isinstance(t, ast.Name):
            add(t.id)
        elif isinstance(t, (ast.Tuple, ast.List)):
            for x in t.elts:
                tgt(x)
        elif isinstance(t, ast.Subscript) and isinstance(t.value, ast.Name):
            add(t.value.id)
        elif isinstance(t, ast.Attribute) and isinstance(t.value, ast.Name) and t.value.id != "self":
            add(t.value.id)

    def walk(ss):
        for s in ss:
            if isinstance(s, ast.Assign):
                for t in s.targets:
                    tgt(t)
            elif isinstance(s, ast.AnnAssign):
                tgt(s.target)
            elif isinstance(s, ast.AugAssign):
                tgt(s.target)
            elif isinstance(s, ast.Expr):
                e = s.value
                if isinstance(e, ast.ListComp):
                    e = e.elt
                if isinstance(e, ast.Call) and isinstance(e.func, ast.Attribute) and isinstance(e.func.value, ast.Name):
                    add(e.func.value.id)
                if isinstance(e, ast.Call) and isinstance(e.func, ast.Attribute) and isinstance(e.func.value, ast.Subscript) \
                        and isinstance(e.func.value.value, ast.Name):
                    add(e.func.value.value.id)
            elif isinstance(s, ast.Delete):
                for t in s.targets:
                    tgt(t)
            elif isinstance(s, ast.For):
                tgt(s.target)
                walk(s.body)
            elif isinstance(s, ast.While):
                walk(s.body)
            elif isinstance(s, ast.If):
                walk(s.body)
                walk(s.orelse)
            elif isinstance(s, ast.With):
                for it in s.items:
                    if it.optional_vars is not None:
                        tgt(it.optional_vars)
                walk(s.body)

    walk(stmts)
    return out


TAIL = "@@TAIL@@"


def has_break(stmts):
    """a break that belongs to the loop whose body is `stmts`"""
    for s in stmts:
        if isinstance(s, ast.Break):
            return True
        if isinstance(s, ast.If) and (has_break(s.body) or has_break(s.orelse)):
            return True
        if isinstance(s, ast.With) and has_break(s.body):
            return True
        if isinstance(s, ast.Try):
            return True
    return False


def flatten_with(stmts, xp, env):
    """`with Solver(...) as s: body`  ==  `s = Solver(...); body` (leaving the block only releases the solver)"""
    out = []
    for s in stmts:
        if (isinstance(s, ast.Try) and not s.orelse and not s.finalbody and len(s.handlers) == 1 and isinstance(s.handlers[0].type, ast.Name)
                and s.handlers[0].type.id == "Exception" and len(s.handlers[0].body) == 1 and isinstance(s.handlers[0].body[0], ast.Raise)
                and s.handlers[0].body[0].exc is None):
            # try: body except Exception: raise   ==  body
            out += flatten_with(s.body, xp, env)
            continue
        if isinstance(s, ast.With):
            if len(s.items) != 1:
                fail(s, "with several items")
            it = s.items[0]
            ce = it.context_expr
            if not (isinstance(ce, ast.Call) and isinstance(ce.func, ast.Name) and ce.func.id == "Solver"):
                fail(s, "with over something other than Solver(...)")
            if it.optional_vars is not None:
                a = ast.Assign(targets=[it.optional_vars], value=ce)
                ast.copy_location(a, s)
                out.append(a)
            out += flatten_with(s.body, xp, env)
        else:
            out.append(s)
    return out

MUTATORS = {("isolver", "add_assertion", 1): "is_add", ("solver", "push", 0): "s_push", ("solver", "pop", 0): "s_pop", ("solver", "add_assertion", 1): "s_add",
            ("solver", "add", 1): "s_add", ("zopt", "push", 0): "o_push", ("zopt", "pop", 0): "o_pop", ("zopt", "add", 1): "o_add",
            ("zopt", "add_soft", 1): "o_add_soft"}


class B:
    """block translator"""

    def __init__(self, ctx):
        self.ctx = ctx
        self.x = X(ctx)

    def mutation(self, e, env):
        """obj.method(args) as a statement -> (name, new value code, binds) or None"""
        if not (isinstance(e, ast.Call) and isinstance(e.func, ast.Attribute) and isinstance(e.func.value, ast.Name)):
            return None
        name = e.func.value.id
        if name not in env:
            return None
        t = env[name]
        meth = e.func.attr
        if t == "wcnf" and meth == "append" and len(e.args) == 1:
            if name in self.ctx.captured:
                fail(e, "%s is mutated after it was stored elsewhere (aliasing)" % name)
            c, te, b = self.x.tx(e.args[0], env)
            if te != "sclause":
                fail(e, "WCNF.append of %r" % (te,))
            if not e.keywords:
                return name, "(w_append %s %s)" % (v(name), c), b, t
            if len(e.keywords) == 1 and e.keywords[0].arg == "weight" and isinstance(e.keywords[0].value, ast.Constant) \
                    and e.keywords[0].value.value == 1:
                return name, "(w_append_soft %s %s)" % (v(name), c), b, t
            fail(e, "WCNF.append with these keywords")
        if e.keywords:
            return None
        if name in self.ctx.captured and is_mutable(t):
            fail(e, "%s is mutated after it was stored elsewhere (aliasing)" % name)
        if (t, meth, len(e.args)) in MUTATORS:
            cs, ts, b = self.x.simple_args(e, env)
            if meth in ("add_assertion", "add", "add_soft") and ts != (["icon"] if t == "isolver" else ["form"]):
                fail(e, "add_assertion of %r" % ts)
            return name, "(%s %s)" % (MUTATORS[(t, meth, len(e.args))], " ".join([v(name)] + cs)), b, t
        if isinstance(t, tuple) and t[0] == "list" and meth == "append" and len(e.args) == 1:
            c, te, b = self.x.tx(e.args[0], env)
            nt = ("list", unify(t[1], te))
            if isinstance(e.args[0], ast.Name) and is_mutable(te):
                self.ctx.captured.add(e.args[0].id)
            return name, "(%s ++ [%s])" % (v(name), c), b, nt
        if isinstance(t, tuple) and t[0] == "dict" and meth == "update" and len(e.args) == 1:
            c, te, b = self.x.tx(e.args[0], env)
            nt = unify(t, te)
            return name, "(zdict_update %s %s)" % (v(name), c), b, nt
        if isinstance(t, tuple) and t[0] == "list" and meth == "extend" and len(e.args) == 1:
            c, te, b = self.x.tx(e.args[0], env)
            nt = unify(t, te)
            return name, "(%s ++ %s)" % (v(name), c), b, nt
        if isinstance(t, tuple) and t[0] == "set" and meth == "add" and len(e.args) == 1:
            c, te, b = self.x.tx(e.args[0], env)
            if te == ("set", "cond"):
                return name, "(csetset_add %s %s)" % (v(name), c), b, ("set", ("set", "cond"))
            if te != "int":
                fail(e, "set.add of %r" % (te,))
            return name, "(zset_add %s %s)" % (v(name), c), b, ("set", "int")
        return None

    def block(self, stmts, env, outvars_fn):
        """returns (code with TAIL placeholder, is_ctl, terminated, env_out)"""
        pieces = []       # list of (prefix, suffix) wrappers applied inside-out
        is_ctl = False
        terminated = False
        env = dict(env)
        if "#dead" in env:
            env["#dead"] = set(env["#dead"])

        def let(patn, code):
            pieces.append(("let %s := %s in\n" % (patn, code), ""))

        def binds_in(binds):
            nonlocal is_ctl
            for name, code, kind in binds:
                pieces.append(("%s (%s) (fun %s =>\n" % (kind, code, name), ")"))
                is_ctl = True

        for s in flatten_with(stmts, self.x, env):
            if terminated:
                break
            # ---- dropped statements
            if isinstance(s, ast.Expr) and isinstance(s.value, ast.Constant):
                continue
            if isinstance(s, ast.Expr) and is_logger_call(s.value):
                continue
            if (isinstance(s, ast.Expr) and isinstance(s.value, ast.Call) and isinstance(s.value.func, ast.Attribute) and isinstance(s.value.func.value, ast.Name)
                    and s.value.func.value.id == "self" and s.value.func.attr in self.ctx.fn.drop_calls):
                continue
            if isinstance(s, ast.Import) and all(a.name == "time" for a in s.names):
                continue
            if (isinstance(s, ast.Expr) and isinstance(s.value, ast.Call) and isinstance(s.value.func, ast.Attribute) and s.value.func.attr == "append"
                    and isinstance(s.value.func.value, ast.Attribute) and isinstance(s.value.func.value.value, ast.Name) and s.value.func.value.value.id == "self"
                    and s.value.func.value.attr in self.ctx.fn.drop_attr_calls):
                continue
            if isinstance(s, ast.If) and self.is_logging_if(s):
                continue
            if isinstance(s, ast.Pass):
                continue
            # ---- del d[k] on an integer-keyed dictionary (KeyError if the key is missing)
            if isinstance(s, ast.Delete):
                if len(s.targets) != 1 or not (isinstance(s.targets[0], ast.Subscript) and isinstance(s.targets[0].value, ast.Name) and s.targets[0].value.id in env
                                               and isinstance(env[s.targets[0].value.id], tuple) and env[s.targets[0].value.id][0] == "dict"):
                    fail(s, "del of this shape")
                dn = s.targets[0].value.id
                if dn in self.ctx.captured:
                    fail(s, "%s is mutated after it was stored elsewhere (aliasing)" % dn)
                kc, kt, kb = self.x.tx(s.targets[0].slice, env)
                if kt != "int":
                    fail(s, "dictionary key of type %r" % (kt,))
                old = self.ctx.fresh()
                binds_in(kb + [(old, "zdict_get %s %s" % (v(dn), kc), "cbind")])
                let(v(dn), "(zdict_del %s %s)" % (v(dn), kc))
                continue
            # ---- try: x = d[k]; ... except KeyError: return v    (only dictionary look-ups inside, so only KeyError can arise)
            if isinstance(s, ast.Try):
                if (s.orelse or s.finalbody or len(s.handlers) != 1 or not isinstance(s.handlers[0].type, ast.Name) or s.handlers[0].type.id != "KeyError"
                        or s.handlers[0].name is not None or len(s.handlers[0].body) != 1 or not isinstance(s.handlers[0].body[0], ast.Return)):
                    fail(s, "try statement of this shape")
                hcode, hb = self.ret(s.handlers[0].body[0], env)
                if hb:
                    fail(s, "handler with effects")
                for a in s.body:
                    if not (isinstance(a, ast.Assign) and len(a.targets) == 1 and isinstance(a.targets[0], ast.Name) and isinstance(a.value, ast.Subscript)
                            and isinstance(a.value.value, ast.Name) and a.value.value.id in env and isinstance(env[a.value.value.id], tuple)
                            and env[a.value.value.id][0] == "dict"):
                        fail(a, "statement inside try other than a dictionary look-up")
                    dn = a.value.value.id
                    kc, kt, kb = self.x.tx(a.value.slice, env)
                    if kt != "int":
                        fail(a, "dictionary key of type %r" % (kt,))
                    # the key is computed before the look-up; it raises nothing the handler would catch
                    binds_in(kb)
                    nm = a.targets[0].id
                    env[nm] = env[dn][1]
                    binds_in([(v(nm), "zdict_find %s %s) (Return %s" % (v(dn), kc, hcode), "try_key")])
                continue
            # ---- return
            if isinstance(s, ast.Return):
                code, binds = self.ret(s, env)
                binds_in(binds)
                pieces.append(("Return %s" % code, ""))
                is_ctl = True
                terminated = True
                continue
            if isinstance(s, ast.Break):
                pieces.append(("Break @@LOOP@@", ""))
                is_ctl = True
                terminated = True
                continue
            if isinstance(s, ast.Continue):
                pieces.append(("Continue @@LOOP@@", ""))
                is_ctl = True
                terminated = True
                continue
            if isinstance(s, ast.Raise):
                pieces.append(("Raise", ""))
                is_ctl = True
                terminated = True
                continue
            if isinstance(s, ast.Assert):
                c, b = self.x.truth(s.test, env)
                binds_in(b)
                if c != "true":
                    binds_in([("_", "py_assert %s" % c, "cbind")])
                continue
            # ---- assignments
            if isinstance(s, (ast.Assign, ast.AnnAssign)):
                targets = s.targets if isinstance(s, ast.Assign) else [s.target]
                if len(targets) != 1 or s.value is None:
                    fail(s, "multiple assignment targets")
                t = targets[0]
                if isinstance(t, ast.Attribute) and t.attr == "index" and isinstance(t.value, ast.Name) and env.get(t.value.id) == "cond":
                    # cond.index = k: the conditional with that index (the object is local: created in this block)
                    if t.value.id in self.ctx.captured:
                        fail(s, "%s is mutated after it was stored elsewhere (aliasing)" % t.value.id)
                    c, ty, b = self.x.tx(s.value, env)
                    if ty != "int":
                        fail(s, "index of type %r" % (ty,))
                    binds_in(b)
                    let(v(t.value.id), "(set_ckey %s %s)" % (v(t.value.id), c))
                    continue
                if isinstance(t, ast.Subscript):
                    slot = self.x.query_slot(t)
                    if slot is not None:
                        entry = [st for st in self.ctx.fn.state if st[0] == slot]
                        if not entry:
                            fail(s, "state slot %s is not declared for %s" % (slot, self.ctx.fn.name))
                        c, ty, b = self.x.tx(s.value, env)
                        unify(entry[0][2], ty)
                        binds_in(b)
                        let(entry[0][1], c)
                        continue
                    self.subscript_assign(s, t, env, let, binds_in)
                    continue
                c, ty, b = self.x.tx(s.value, env)
                if isinstance(t, ast.Tuple) and isinstance(s.value, ast.Tuple) and len(t.elts) == len(s.value.elts) \
                        and all(isinstance(x, ast.Name) and x.id in self.ctx.fn.locals_ and isinstance(y, ast.List) and not y.elts
                                for x, y in zip(t.elts, s.value.elts)):
                    # x, y = [], []   with declared element types
                    tys = [self.ctx.fn.locals_[x.id] for x in t.elts]
                    c = "(" + ", ".join("([] : %s)" % coq_type(tt_) for tt_ in tys) + ")"
                    ty = ("tuple", tuple(tys))
                if isinstance(t, ast.Name) and t.id in self.ctx.fn.locals_ and isinstance(s.value, ast.Call) and isinstance(s.value.func, ast.Name) \
                        and s.value.func.id == "dict" and not s.value.args:
                    ty = self.ctx.fn.locals_[t.id]
                    c = "([] : %s)" % coq_type(ty)
                if isinstance(t, ast.Name) and t.id in self.ctx.fn.locals_ and isinstance(s.value, ast.Dict) and not s.value.keys:
                    ty = self.ctx.fn.locals_[t.id]
                    c = "([] : %s)" % coq_type(ty)
                if isinstance(t, ast.Name) and t.id in self.ctx.fn.locals_ and isinstance(s.value, ast.List) and not s.value.elts:
                    ty = self.ctx.fn.locals_[t.id]
                    c = "([] : %s)" % coq_type(ty)
                if isinstance(t, ast.Name) and t.id in self.ctx.fn.locals_:
                    c, ty = coerce(c, ty, self.ctx.fn.locals_[t.id])
                    unify(self.ctx.fn.locals_[t.id], ty)
                binds_in(b)
                if isinstance(s.value, ast.Name) and is_mutable(ty):
                    self.ctx.captured.add(s.value.id)
                    if isinstance(t, ast.Name):
                        self.ctx.captured.add(t.id)
                elif isinstance(t, ast.Name):
                    self.ctx.captured.discard(t.id)
                    env.get("#dead", set()).discard(t.id)
                p = target_pat(t, env, ty)
                let(p, c)
                continue
            if isinstance(s, ast.AugAssign):
                if not isinstance(s.target, ast.Name) or s.target.id not in env:
                    fail(s, "augmented assignment target")
                c, ty, b = self.x.tx(s.value, env)
                binds_in(b)
                nm = s.target.id
                if env[nm] == "int" and ty == "int" and isinstance(s.op, (ast.Add, ast.Sub)):
                    let(v(nm), "(%s %s %s)%%Z" % (v(nm), "+" if isinstance(s.op, ast.Add) else "-", c))
                elif isinstance(env[nm], tuple) and env[nm][0] == "list" and isinstance(ty, tuple) and ty[0] == "list" and isinstance(s.op, ast.Add):
                    if nm in self.ctx.captured:
                        fail(s, "%s is mutated after it was stored elsewhere (aliasing)" % nm)
                    env[nm] = unify(env[nm], ty)
                    let(v(nm), "(%s ++ %s)" % (v(nm), c))
                else:
                    fail(s, "augmented assignment on %r" % (env[nm],))
                continue
            # ---- expression statements: mutations, comprehensions run for their effect
            if isinstance(s, ast.Expr):
                e = s.value
                m = self.mutation(e, env)
                if m is not None:
                    name, code, b, nt = m
                    binds_in(b)
                    env[name] = nt
                    let(v(name), code)
                    continue
                if (isinstance(e, ast.Call) and isinstance(e.func, ast.Attribute) and e.func.attr == "add" and len(e.args) == 1 and not e.keywords
                        and isinstance(e.func.value, ast.Subscript) and isinstance(e.func.value.value, ast.Name) and e.func.value.value.id in env
                        and isinstance(env[e.func.value.value.id], tuple) and env[e.func.value.value.id][0] == "dict"):
                    dn = e.func.value.value.id
                    try:
                        env[dn] = unify(env[dn], ("dict", ("set", "world")))
                    except Unsupported:
                        fail(s, "add through a subscript of %r" % (env[dn],))
                    if dn in self.ctx.captured:
                        fail(s, "%s is mutated after it was stored elsewhere (aliasing)" % dn)
                    kc, kt, kb = self.x.tx(e.func.value.slice, env)
                    xc, xt, xb = self.x.tx(e.args[0], env)
                    if (kt, xt) != ("int", "world"):
                        fail(s, "add through a subscript with %r" % ((kt, xt),))
                    old = self.ctx.fresh()
                    binds_in(kb + xb + [(old, "zdict_get %s %s" % (v(dn), kc), "cbind")])
                    let(v(dn), "(zdict_set %s %s (wset_add %s %s))" % (v(dn), kc, old, xc))
                    continue
                if (isinstance(e, ast.Call) and isinstance(e.func, ast.Attribute) and e.func.attr in ("add", "discard") and len(e.args) == 1 and not e.keywords
                        and isinstance(e.func.value, ast.Subscript) and isinstance(e.func.value.value, ast.Name) and e.func.value.value.id in env
                        and env[e.func.value.value.id] == ("wdict", ("set", "int"))):
                    dn = e.func.value.value.id
                    if dn in self.ctx.captured:
                        fail(s, "%s is mutated after it was stored elsewhere (aliasing)" % dn)
                    kc, kt, kb = self.x.tx(e.func.value.slice, env)
                    xc, xt, xb = self.x.tx(e.args[0], env)
                    if (kt, xt) != ("world", "int"):
                        fail(s, "%s through a subscript with %r" % (e.func.attr, (kt, xt)))
                    old = self.ctx.fresh()
                    binds_in(kb + xb + [(old, "wdict_get %s %s" % (v(dn), kc), "cbind")])
                    let(v(dn), "(wdict_set %s %s (%s %s %s))" % (v(dn), kc, "zset_add" if e.func.attr == "add" else "zset_discard", old, xc))
                    continue
                if (isinstance(e, ast.Call) and isinstance(e.func, ast.Attribute) and e.func.attr == "append" and len(e.args) == 1 and not e.keywords
                        and isinstance(e.func.value, ast.Subscript) and isinstance(e.func.value.value, ast.Name) and e.func.value.value.id in env):
                    dn = e.func.value.value.id
                    dt = env[dn]
                    if not (isinstance(dt, tuple) and dt[0] == "dict" and isinstance(dt[1], tuple) and dt[1][0] == "list"):
                        fail(s, "append through a subscript of %r" % (dt,))
                    if dn in self.ctx.captured:
                        fail(s, "%s is mutated after it was stored elsewhere (aliasing)" % dn)
                    kc, kt, kb = self.x.tx(e.func.value.slice, env)
                    xc, xt, xb = self.x.tx(e.args[0], env)
                    if kt != "int":
                        fail(s, "dictionary key of type %r" % (kt,))
                    env[dn] = ("dict", ("list", unify(dt[1][1], xt)))
                    old = self.ctx.fresh()
                    binds_in(kb + xb + [(old, "zdict_get %s %s" % (v(dn), kc), "cbind")])
                    let(v(dn), "(zdict_set %s %s (%s ++ [%s]))" % (v(dn), kc, old, xc))
                    continue
                if isinstance(e, ast.ListComp) and len(e.generators) == 2 and not e.generators[1].ifs:
                    g1, g2 = e.generators
                    it, tit, bit = self.x.tx(g1.iter, env)
                    binds_in(bit)
                    if not (isinstance(tit, tuple) and tit[0] == "list"):
                        fail(s, "iteration over %r" % (tit,))
                    env1 = dict(env)
                    p1 = target_pat(g1.target, env1, tit[1])
                    cds = []
                    for cnd in g1.ifs:
                        cc, cb = self.x.truth(cnd, env1)
                        if cb:
                            fail(cnd, "a filter that may raise")
                        cds.append(cc)
                    if cds:
                        it = "(filter (fun %s => %s) %s)" % (p1, " && ".join(cds), it)
                    it2, tit2 = self.x.pure(g2.iter, env1)
                    if not (isinstance(tit2, tuple) and tit2[0] == "list"):
                        fail(s, "inner iteration over %r" % (tit2,))
                    env2 = dict(env1)
                    p2 = target_pat(g2.target, env2, tit2[1])
                    m = self.mutation(e.elt, env2)
                    if m is None:
                        fail(s, "comprehension used as a statement whose element is not a supported mutation")
                    name, code, b, nt = m
                    if b or name not in env:
                        fail(s, "unsupported mutation inside a two-level comprehension")
                    env[name] = nt
                    let(v(name), "fold_left (fun %s %s => %s) (flat_map (fun %s => %s) %s) %s" % (v(name), p2, code, p1, it2, it, v(name)))
                    continue
                if isinstance(e, ast.ListComp) and len(e.generators) == 1:
                    g = e.generators[0]
                    it, tit, bit = self.x.tx(g.iter, env)
                    binds_in(bit)
                    if not (isinstance(tit, tuple) and tit[0] in ("list", "set")):
                        fail(s, "iteration over %r" % (tit,))
                    env2 = dict(env)
                    p = target_pat(g.target, env2, tit[1])
                    conds_ = []
                    for cnd in g.ifs:
                        cc, cb = self.x.truth(cnd, env2)
                        if cb:
                            fail(cnd, "a filter that may raise")
                        conds_.append(cc)
                    if conds_:
                        it = "(filter (fun %s => %s) %s)" % (p, " && ".join(conds_), it)
                    m = self.mutation(e.elt, env2)
                    if m is None:
                        fail(s, "comprehension used as a statement whose element is not a supported mutation")
                    name, code, b, nt = m
                    if b:
                        fail(s, "mutation argument that may raise inside a comprehension")
                    if name not in env:
                        fail(s, "comprehension mutates its own variable")
                    env[name] = nt
                    let(v(name), "fold_left (fun %s %s => %s) %s %s" % (v(name), p, code, it, v(name)))
                    continue
                if isinstance(e, ast.Call) and isinstance(e.func, ast.Name) and e.func.id in self.ctx.table and not self.ctx.table[e.func.id].mutates \
                        and not self.ctx.table[e.func.id].returns_state:
                    # a function called for its exceptions only (validation): its value is dropped
                    c, t, b = self.x.tx(e, env)
                    binds_in(b)
                    continue
                fail(s, "expression statement")
            # ---- with Solver(...) as s:   (flattened by flatten_with before the loop)
            if isinstance(s, ast.With):
                fail(s, "with statement in an unexpected position")
            # ---- if
            if isinstance(s, ast.If):
                c, b = self.x.truth(s.test, env)
                binds_in(b)
                if c in ("true", "false"):
                    # statically decided test (e.g. `x is None` for a parameter typed None): only one branch exists
                    code, ctl, term, envo = self.block(s.body if c == "true" else s.orelse, env, None)
                    for k_, t_ in envo.items():
                        env[k_] = t_
                    if term:
                        pieces.append((code, ""))
                        is_ctl = True
                        terminated = True
                    else:
                        pre, suf = code.split(TAIL)
                        pieces.append((pre, suf))
                        is_ctl = is_ctl or ctl
                    continue
                ca, ctla, terma, enva = self.block(s.body, env, None)
                cb_, ctlb, termb, envb = self.block(s.orelse, env, None)
                names = []
                for nme in assigned(s.body) + assigned(s.orelse):
                    if nme in names:
                        continue
                    ina = terma or nme in enva
                    inb = termb or nme in envb
                    if nme in env or (ina and inb):
                        names.append(nme)
                dead = set(enva.get("#dead", ())) | set(envb.get("#dead", ()))
                if dead:
                    env["#dead"] = set(env.get("#dead", ())) | dead
                for nme in names:
                    ta = enva.get(nme) if not terma else None
                    tb = envb.get(nme) if not termb else None
                    env[nme] = unify(unify(env.get(nme), ta), tb) if True else None
                if terma and termb:
                    pieces.append(("if %s then (%s) else (%s)" % (c, ca, cb_), ""))
                    is_ctl = True
                    terminated = True
                    continue
                if ctla or ctlb:
                    ca = ca.replace(TAIL, "Next %s" % tup(names))
                    cb_ = cb_.replace(TAIL, "Next %s" % tup(names))
                    pieces.append(("cbind (if %s then (%s) else (%s)) (fun %s =>\n" % (c, ca, cb_, pat(names)), ")"))
                    is_ctl = True
                else:
                    if not names:
                        continue     # no effect at all
                    ca = ca.replace(TAIL, tup(names))
                    cb_ = cb_.replace(TAIL, tup(names))
                    let(pat(names), "(if %s then (%s) else (%s))" % (c, ca, cb_))
                continue
            # ---- for over a pair (a 2-tuple value or a list literal): unrolled
            if isinstance(s, ast.For) and isinstance(s.target, ast.Name) and self.unrollable(s, env):
                for sub in self.unroll(s, env):
                    code, ctl, term, envo = self.block([sub], env, None)
                    if term:
                        fail(s, "an unrolled iteration that always leaves the function")
                    for k_, t_ in envo.items():
                        env[k_] = t_
                    pre, suf = code.split(TAIL)
                    pieces.append((pre, suf))
                    is_ctl = is_ctl or ctl
                continue
            # ---- for
            if isinstance(s, ast.For):
                if s.orelse:
                    fail(s, "for-else")
                it, tit, bit = self.x.tx(s.iter, env)
                binds_in(bit)
                if isinstance(tit, tuple) and tit[0] in ("list", "set"):
                    et = tit[1]
                elif isinstance(tit, tuple) and tit[0] == "dict":
                    it, et = "(dict_keys %s)" % it, "int"
                else:
                    fail(s, "iteration over %r" % (tit,))
                carried = [nme for nme in assigned(s.body) if nme in env]
                if isinstance(s.iter, ast.Name) and s.iter.id in carried:
                    fail(s, "the loop mutates the list it iterates over")
                # two passes so that aliasing across iterations is seen
                env2 = dict(env)
                p = target_pat(s.target, env2, et)
                _, _, _, envo = self.block(s.body, env2, None)
                for nme in carried:
                    if nme in envo:
                        env2[nme] = env[nme] = unify(env[nme], envo[nme])
                code, ctl, term, envo = self.block(s.body, env2, None)
                for nme in carried:
                    if nme in envo:
                        env[nme] = unify(env[nme], envo[nme])
                if "#dead" in envo and envo["#dead"]:
                    env["#dead"] = set(env.get("#dead", ())) | set(envo["#dead"])
                if ctl or term:
                    code = code.replace(TAIL, "Next %s" % tup(carried)).replace("@@LOOP@@", tup(carried))
                    pieces.append(("cbind (for_each %s (fun %s %s => %s) %s) (fun %s =>\n" % (it, p, pat(carried), code, tup(carried), pat(carried)), ")"))
                    is_ctl = True
                else:
                    code = code.replace(TAIL, tup(carried))
                    let(pat(carried), "fold_left (fun %s %s => %s) %s %s" % (pat(carried), p, code, it, tup(carried)))
                continue
            # ---- while True
            if isinstance(s, ast.While):
                if s.orelse or not (isinstance(s.test, ast.Constant) and s.test.value is True):
                    fail(s, "only `while True:` is supported")
                carried = [nme for nme in assigned(s.body) if nme in env]
                _, _, _, envo = self.block(s.body, env, None)
                for nme in carried:
                    if nme in envo:
                        env[nme] = unify(env[nme], envo[nme])
                code, ctl, term, envo = self.block(s.body, env, None)
                if "#dead" in envo and envo["#dead"]:
                    env["#dead"] = set(env.get("#dead", ())) | set(envo["#dead"])
                code = code.replace(TAIL, "Next %s" % tup(carried)).replace("@@LOOP@@", tup(carried))
                self.ctx.fn.fuel = True
                is_ctl = True
                if not has_break(s.body):
                    # `while True` without a break is left by return / exception only: nothing after it is reachable
                    pieces.append(("cbind (while_true fuel (fun %s => %s) %s) (fun _ => Raise)" % (pat(carried), code, tup(carried)), ""))
                    terminated = True
                    continue
                pieces.append(("cbind (while_true fuel (fun %s => %s) %s) (fun %s =>\n" % (pat(carried), code, tup(carried), pat(carried)), ")"))
                continue
            fail(s, "unsupported statement %s" % type(s).__name__)

        code = ""
        suffix = ""
        for pre, suf in pieces:
            code += pre
            suffix = suf + suffix
        if not terminated:
            code += TAIL
        code += suffix
        return code, is_ctl, terminated, env

    def unrollable(self, s, env):
        if s.orelse or any(isinstance(x, (ast.Break, ast.Continue)) for b in s.body for x in ast.walk(b)):
            return False
        if isinstance(s.iter, ast.List) and 1 <= len(s.iter.elts) <= 3:
            return True
        if isinstance(s.iter, ast.Name) and s.iter.id in env and isinstance(env[s.iter.id], tuple) and env[s.iter.id][0] == "tuple":
            return True
        return False

    def unroll(self, s, env):
        """for x in (a, b): body   ==   x = a; body[x is a := True, x is b := False]; x = b; body[...]
        (`x is <element>` compares object identity: true exactly in that element's own iteration)"""
        if isinstance(s.iter, ast.List):
            elts = s.iter.elts
        else:
            nelt = len(env[s.iter.id][1])
            elts = [ast.Subscript(value=ast.Name(id=s.iter.id, ctx=ast.Load()), slice=ast.Constant(value=k), ctx=ast.Load()) for k in range(nelt)]
        dumps = [ast.dump(x) for x in elts]
        tname = s.target.id
        out = []

        class Fold(ast.NodeTransformer):
            def __init__(self, k):
                self.k = k

            def visit_Compare(self, node):
                self.generic_visit(node)
                if (len(node.ops) == 1 and isinstance(node.ops[0], (ast.Is, ast.IsNot)) and isinstance(node.left, ast.Name)
                        and node.left.id == tname and ast.dump(node.comparators[0]) in dumps):
                    same = dumps.index(ast.dump(node.comparators[0])) == self.k
                    return ast.copy_location(ast.Constant(value=(same if isinstance(node.ops[0], ast.Is) else not same)), node)
                return node
        import copy
        for k, el in enumerate(elts):
            a = ast.Assign(targets=[ast.Name(id=tname, ctx=ast.Store())], value=el)
            ast.copy_location(a, s)
            ast.fix_missing_locations(a)
            body = [Fold(k).visit(copy.deepcopy(b)) for b in s.body]
            wrapper = ast.If(test=ast.Constant(value=True), body=[a] + body, orelse=[])
            ast.copy_location(wrapper, s)
            ast.fix_missing_locations(wrapper)
            out.append(wrapper)
        return out

    def subscript_assign(self, s, t, env, let, binds_in):
        sk = self.x.state_key(t.value)
        if sk is not None:
            entry = [st for st in self.ctx.fn.state if st[0] == sk]
            if not entry or not (isinstance(entry[0][2], tuple) and entry[0][2][0] == "dict"):
                fail(s, "assignment into state entry %s" % sk)
            k, tk, bk = self.x.tx(t.slice, env)
            c, tv, b = self.x.tx(s.value, env)
            if tk != "int":
                fail(s, "dictionary key of type %r" % (tk,))
            unify(entry[0][2][1], tv)
            binds_in(bk + b)
            let(entry[0][1], "(zdict_set %s %s %s)" % (entry[0][1], k, c))
            return
        if not isinstance(t.value, ast.Name) or t.value.id not in env:
            fail(s, "assignment to a subscript of something other than a local dictionary")
        nm = t.value.id
        ty = env[nm]
        if isinstance(ty, tuple) and ty[0] == "wdict":
            if nm in self.ctx.captured:
                fail(s, "%s is mutated after it was stored elsewhere (aliasing)" % nm)
            k, tk, bk = self.x.tx(t.slice, env)
            c, tv, b = self.x.tx(s.value, env)
            if tk != "world":
                fail(s, "ranking table key of type %r" % (tk,))
            c, tv = coerce(c, tv, ty[1])
            env[nm] = ("wdict", unify(ty[1], tv))
            binds_in(bk + b)
            let(v(nm), "(wdict_set %s %s %s)" % (v(nm), k, c))
            return
        if isinstance(ty, tuple) and ty[0] == "sdict":
            if nm in self.ctx.captured:
                fail(s, "%s is mutated after it was stored elsewhere (aliasing)" % nm)
            k, tk, bk = self.x.tx(t.slice, env)
            c, tv, b = self.x.tx(s.value, env)
            if tk != "string":
                fail(s, "string-keyed dictionary with a key of type %r" % (tk,))
            env[nm] = ("sdict", unify(ty[1], tv))
            binds_in(bk + b)
            let(v(nm), "(sdict_set %s %s %s)" % (v(nm), k, c))
            return
        if not (isinstance(ty, tuple) and ty[0] == "dict"):
            fail(s, "subscript assignment on %r" % (ty,))
        if nm in self.ctx.captured:
            fail(s, "%s is mutated after it was stored elsewhere (aliasing)" % nm)
        k, tk, bk = self.x.tx(t.slice, env)
        c, tv, b = self.x.tx(s.value, env)
        if tk != "int":
            fail(s, "dictionary key of type %r" % (tk,))
        env[nm] = ("dict", unify(ty[1], tv))
        binds_in(bk + b)
        if c == "[]" and ty[1] is not None:
            c = "([] : %s)" % coq_type(ty[1])
        let(v(nm), "(zdict_set %s %s %s)" % (v(nm), k, c))

    def is_logging_if(self, s):
        t = s.test
        if not (isinstance(t, ast.Call) and isinstance(t.func, ast.Attribute) and t.func.attr == "isEnabledFor"
                and isinstance(t.func.value, ast.Name) and t.func.value.id == "logger"):
            return False
        return not s.orelse and all(isinstance(x, ast.Expr) and is_logger_call(x.value) for x in s.body)

    def ret(self, s, env):
        fn = self.ctx.fn
        if s.value is None:
            return ("tt" if not fn.returns_state else "(tt, %s)" % tup(fn.returns_state)), []
        if fn.ret_union:
            e = s.value
            first = e.elts[0] if isinstance(e, ast.Tuple) else e
            rest = e.elts[1:] if isinstance(e, ast.Tuple) else []
            if isinstance(first, ast.Constant) and first.value is False:
                fc, ft, fb = "PFalse", ("res", None), []
            else:
                c, t, fb = self.x.tx(first, env)
                if t == "bool":
                    fail(s, "this function returns False or a value; a Boolean expression here cannot be told apart")
                fc, ft = "(PVal %s)" % c, ("res", t)
            cs, ts, binds = [fc], [ft], list(fb)
            for r in rest:
                c, t, b = self.x.tx(r, env)
                cs.append(c)
                ts.append(t)
                binds += b
            ty = ("tuple", tuple(ts)) if rest else ft
            fn.ret = unify(fn.ret, ty)
            return ("(" + ", ".join(cs) + ")") if rest else fc, binds
        if isinstance(fn.ret, tuple) and fn.ret[0] == "opt":
            if isinstance(s.value, ast.Constant) and s.value.value is None:
                return "None", []
            c, t, b = self.x.tx(s.value, env)
            unify(fn.ret[1], t)
            return "(Some %s)" % c, b
        c, t, b = self.x.tx(s.value, env)
        if fn.ret == "optint":
            c, t = coerce(c, t, "optint")
        if fn.ret == "int" and t == "optint":
            nm = self.ctx.fresh()
            b = b + [(nm, "py_unopt %s" % c, "cbind")]
            c, t = nm, "int"
        fn.ret = unify(fn.ret, t)
        if fn.returns_state:
            c = "(%s, %s)" % (c, tup(fn.returns_state))
        return c, b


# ------------------------------------------------------------------------------------------------ driver
COQ_TYPES = {"ptree_atom": "ptree", "bool": "bool", "int": "Z", "form": "form", "cond": "cond", "solver": "solver", "str": "unit", "none": "unit",
             "bb": "pybase", "deadline": "unit", "wcnf": "wcnf", "sclause": "sclause", "optimizer": "unit", "tseitin": "unit", "world": "world", "zopt": "zopt", "optint": "(option Z)", "preocf": "(wdict (option Z))", "preocf_s": "((wdict (option Z)) * (list Z))", "string": "string", "esdict": "unit", "opclass": "opclass", "ptree": "ptree", "pool": "unit", "iterm": "iterm", "icon": "icon", "isolver": "(list icon)", "symidx": "symidx", "float": "unit"}


def coq_type(t):
    if t in COQ_TYPES:
        return COQ_TYPES[t]
    if isinstance(t, tuple):
        if t[0] in ("list", "set"):
            return "(list %s)" % coq_type(t[1])
        if t[0] == "dict":
            return "(dict Z %s)" % coq_type(t[1])
        if t[0] == "wdict":
            return "(wdict %s)" % coq_type(t[1])
        if t[0] == "sdict":
            return "(list (string * %s))" % coq_type(t[1])
        if t[0] == "opt":
            return "(option %s)" % coq_type(t[1])
        if t[0] == "fn":
            return "(%s)" % " -> ".join([coq_type(x) for x in t[1]] + ["ctl %s unit unit" % coq_type(t[2])])
        if t[0] == "res":
            return "(pyres %s)" % coq_type(t[1])
        if t[0] == "tuple":
            return "(" + " * ".join(coq_type(x) for x in t[1]) + ")"
    raise Unsupported("no Coq type for %r" % (t,))


def find_function(tree, cls, name):
    body = tree.body
    if cls:
        for n in body:
            if isinstance(n, ast.ClassDef) and n.name == cls:
                body = n.body
                break
        else:
            raise Unsupported("class %s not found" % cls)
    found = [n for n in body if isinstance(n, ast.FunctionDef) and n.name == name]
    if len(found) != 1:
        raise Unsupported("%d definitions of %s%s" % (len(found), cls + "." if cls else "", name))
    return found[0]


def translate_function(tree, fn, table, consts):
    node = find_function(tree, fn.cls, fn.name)
    a = node.args
    if a.vararg or a.kwarg or a.posonlyargs:
        raise Unsupported("%s: unsupported parameter kinds" % fn.name)
    declared = [p[0] for p in fn.params]
    actual = [x.arg for x in a.args] + [x.arg for x in a.kwonlyargs]      # keyword-only parameters: passed by name at every call
    if fn.cls and not any(p[0] == "self" for p in fn.params):
        actual = actual[1:]
    if declared != actual:
        raise Unsupported("%s: parameters are %r, the translator was told %r" % (fn.name, actual, declared))
    if fn.narrow:
        names = set(fn.narrow)

        class Ren(ast.NodeTransformer):
            def __init__(self, a, b):
                self.a, self.b = a, b

            def visit_Name(self, x):
                if x.id == self.a:
                    if not isinstance(x.ctx, ast.Load):
                        raise Unsupported("%s: %s is re-bound under its `is not None` test" % (fn.name, self.a))
                    return ast.copy_location(ast.Name(id=self.b, ctx=ast.Load()), x)
                return x

        class Narrow(ast.NodeTransformer):
            def visit_If(self, x):
                self.generic_visit(x)
                t = x.test
                if (isinstance(t, ast.Compare) and len(t.ops) == 1 and isinstance(t.ops[0], ast.IsNot) and isinstance(t.left, ast.Name)
                        and t.left.id in names and isinstance(t.comparators[0], ast.Constant) and t.comparators[0].value is None):
                    a = t.left.id
                    b = a + "__int"
                    body = [Ren(a, b).visit(st) for st in x.body]
                    bind = ast.Assign(targets=[ast.Name(id=b, ctx=ast.Store())],
                                      value=ast.Call(func=ast.Name(id="__unopt", ctx=ast.Load()), args=[ast.Name(id=a, ctx=ast.Load())], keywords=[]))
                    x.body = [ast.copy_location(bind, x)] + body
                if (isinstance(t, ast.Compare) and len(t.ops) == 1 and isinstance(t.ops[0], ast.Is) and isinstance(t.left, ast.Name)
                        and t.left.id in names and isinstance(t.comparators[0], ast.Constant) and t.comparators[0].value is None and x.orelse):
                    a = t.left.id
                    b = a + "__val"
                    body = [Ren(a, b).visit(st) for st in x.orelse]
                    bind = ast.Assign(targets=[ast.Name(id=b, ctx=ast.Store())],
                                      value=ast.Call(func=ast.Name(id="__unopt", ctx=ast.Load()), args=[ast.Name(id=a, ctx=ast.Load())], keywords=[]))
                    x.orelse = [ast.copy_location(bind, x)] + body
                return x
        node = Narrow().visit(node)
        ast.fix_missing_locations(node)
    if fn.at_mut:
        # self.attr for a written attribute becomes a variable at__attr: a parameter whose final value is returned
        attrs = {k for k, _ in fn.at_mut}

        class AtVar(ast.NodeTransformer):
            def visit_Attribute(self, x):
                self.generic_visit(x)
                if isinstance(x.value, ast.Name) and x.value.id == "self" and x.attr in attrs:
                    return ast.copy_location(ast.Name(id="at__" + x.attr, ctx=ast.Load()), x)
                return x
        node = AtVar().visit(node)
        ast.fix_missing_locations(node)
        a = node.args
        if not any(p[0] == "at__" + fn.at_mut[0][0] for p in fn.params):
            fn.params = list(fn.params) + [("at__" + k, t) for k, t in fn.at_mut]
            fn.returns_state = list(fn.returns_state) + ["at__" + k for k, _ in fn.at_mut]
    if fn.es_mut:
        # self.epistemic_state["k"] for a written entry k becomes a variable es__k: a parameter whose final value is returned
        keys = {k for k, _ in fn.es_mut}

        class EsVar(ast.NodeTransformer):
            def visit_Subscript(self, x):
                self.generic_visit(x)
                if (isinstance(x.value, ast.Attribute) and isinstance(x.value.value, ast.Name) and x.value.value.id == "self"
                        and x.value.attr == "epistemic_state" and isinstance(x.slice, ast.Constant) and x.slice.value in keys):
                    return ast.copy_location(ast.Name(id="es__" + x.slice.value, ctx=ast.Load()), x)
                return x
        node = EsVar().visit(node)
        ast.fix_missing_locations(node)
        a = node.args
        if not any(p[0] == "es__" + fn.es_mut[0][0] for p in fn.params):
            fn.params = list(fn.params) + [("es__" + k, t) for k, t in fn.es_mut]
            fn.returns_state = list(fn.returns_state) + ["es__" + k for k, _ in fn.es_mut]
    # defaults are part of the meaning of a call that omits the argument
    defaults = {}
    for arg, d in zip(a.args[len(a.args) - len(a.defaults):], a.defaults):
        defaults[arg.arg] = d
    for arg, d in zip(a.kwonlyargs, a.kw_defaults):
        if d is not None:
            defaults[arg.arg] = d
    ctx = Ctx(fn, table, consts)
    xp = X(ctx)
    newparams = []
    for p in fn.params:
        if p[0] in defaults:
            d = defaults[p[0]]
            if isinstance(d, ast.List) and not d.elts:
                raise Unsupported("%s: mutable default argument for %s" % (fn.name, p[0])) if p[0] in fn.mutates else None
            try:
                c, t, b = xp.tx(d, {})
            except Unsupported:
                c, t, b = None, None, []
            if c is not None and not b and p[1] not in ("deadline",):
                try:
                    unify(p[1], t)
                except Unsupported:
                    # the default (e.g. None) is outside the declared type: the generated function has no default here, every caller passes a value
                    newparams.append((p[0], p[1]))
                    continue
                newparams.append((p[0], p[1], c))
                continue
            if p[1] == "deadline":
                newparams.append((p[0], p[1], "tt"))
                continue
        newparams.append((p[0], p[1]))
    fn.params = newparams
    env = {p[0]: p[1] for p in fn.params}
    bt = B(ctx)
    body = [s for s in node.body if not (isinstance(s, ast.Expr) and isinstance(s.value, ast.Constant))]
    # which parameters does the body mutate?
    for nme in assigned(body):
        if nme in env and is_mutable(env[nme]):
            # re-binding a parameter name is not a mutation of the caller's object, a method call on it is
            for s in ast.walk(node):
                if isinstance(s, ast.Call) and isinstance(s.func, ast.Attribute) and isinstance(s.func.value, ast.Name) \
                        and s.func.value.id == nme and (env[nme], s.func.attr, len(s.args)) in MUTATORS:
                    fn.mutates.add(nme)
                if isinstance(s, ast.Call) and isinstance(s.func, ast.Attribute) and isinstance(s.func.value, ast.Name) \
                        and s.func.value.id == nme and s.func.attr in ("append", "add"):
                    fn.mutates.add(nme)
    for p in fn.params:
        if p[0] in fn.mutates and p[0] in defaults:
            raise Unsupported("%s: parameter %s has a default value and is mutated" % (fn.name, p[0]))
    params = " ".join("(%s : %s)" % (v(p[0]), coq_type(p[1])) for p in fn.params)
    state = " ".join("(%s : %s)" % (coq, coq_type(ty)) for _, coq, ty in fn.state)
    HOLE = "@@ABSTRACT@@"
    state = HOLE + state
    # a body that is a single `return E` with a total E is a plain definition
    if len(body) == 1 and isinstance(body[0], ast.Return) and body[0].value is not None and not fn.ret_union:
        c, t, b = xp.tx(body[0].value, env)
        if not b:
            fn.pure = True
            fn.ret = unify(fn.ret, t)
            return ("Definition %s (n : nat) %s %s : %s :=\n  %s.\n" % (fn.coq, state, params, coq_type(fn.ret), c)).replace(HOLE, abstract_params(fn))
    recursive = any(isinstance(x, ast.Call) and isinstance(x.func, ast.Attribute) and isinstance(x.func.value, ast.Name)
                    and x.func.value.id == "self" and x.func.attr == fn.name for x in ast.walk(node)) or \
        any(isinstance(x, ast.Call) and isinstance(x.func, ast.Name) and x.func.id == fn.name for x in ast.walk(node))
    if recursive:
        fn.fuel = True
        if fn.ret is None:
            raise Unsupported("%s: a recursive function needs a declared return type" % fn.name)
    code, ctl, term, _ = bt.block(body, env, None)
    if (not recursive and not fn.returns_state and not fn.ret_union and term and code.count("Return ") == 1
            and not any(k in code for k in ("cbind", "call ", "for_each", "while_true", "Raise", "Break", "Continue", "NoFuel"))):
        # straight-line code ending in its only return: a plain definition (usable inside filters and quantifiers)
        fn.pure = True
        return ("Definition %s (n : nat) %s %s : %s :=\n  %s.\n" % (fn.coq, state, params, coq_type(fn.ret), code.replace("Return ", "", 1))).replace(HOLE, abstract_params(fn))
    code = code.replace(TAIL, "Return tt" if not fn.returns_state else "Return (tt, %s)" % tup(fn.returns_state))
    if "@@LOOP@@" in code:
        raise Unsupported("%s: break/continue outside a loop" % fn.name)
    if fn.ret is None:
        fn.ret = "none"
    rty = "ctl %s unit unit" % coq_type(fn.ret)
    if fn.returns_state:
        rty = "ctl (%s * (%s)) unit unit" % (coq_type(fn.ret), " * ".join(coq_type(dict((p[0], p[1]) for p in fn.params)[x]) for x in fn.returns_state))
    if recursive:
        return ("Fixpoint %s (n : nat) (fuel : nat) %s %s {struct fuel} : %s :=\n  match fuel with 0 => NoFuel | S fuel =>\n  %s\n  end.\n"
                % (fn.coq, state, params, rty, code)).replace(HOLE, abstract_params(fn))
    fuel = "(fuel : nat) " if fn.fuel else ""
    return ("Definition %s (n : nat) %s%s %s : %s :=\n  %s.\n" % (fn.coq, fuel, state, params, rty, code)).replace(HOLE, abstract_params(fn))


def abstract_params(fn):
    out = ""
    for u in fn.uses:
        ps = [p for p in u.params if p[0] != "self"]
        out += "(%s : %s) " % (u.coq, " -> ".join([coq_type(p[1]) for p in ps] + ["ctl %s unit unit" % coq_type(u.ret)]))
    return out


PART_OBJ = ("list", ("list", "cond"))
PART_KEY = ("list", ("list", "int"))

SCNF = ("list", "sclause")
W_STATE = [("partition", "es_partition", PART_KEY), ("nf_cnf_dict", "es_nf_cnf_dict", ("dict", SCNF)),
           ("f_cnf_dict", "es_f_cnf_dict", ("dict", SCNF)), ("v_cnf_dict#query", "es_v_query", SCNF), ("f_cnf_dict#query", "es_f_query", SCNF)]

TRIPLE = ("tuple", ("int", ("list", "int"), ("list", "int")))
RANKS = [("@ranks", "at_ranks", ("wdict", "optint"))]
Z3_CONSTS = {"sat": ("true", "bool", []), "unsat": ("false", "bool", [])}

WSET = ("set", "world")
GAMMA_SRC = """
def _gamma(name: str) -> FNode:
    sym = _gamma_sym_cache.get(name)
    if sym is None:
        sym = Symbol(name, INT)
        _gamma_sym_cache[name] = sym
    return sym
"""
TARGETS = [
    dict(out="SrcCond", file="inference/conditional.py", requires=[], funcs=[
        Fn("make_A_then_B", "py_make_A_then_B", [("self", "cond")], cls="Conditional"),
        Fn("make_A_then_not_B", "py_make_A_then_not_B", [("self", "cond")], cls="Conditional"),
        Fn("make_B", "py_make_B", [("self", "cond")], cls="Conditional"),
        Fn("make_not_A_or_B", "py_make_not_A_or_B", [("self", "cond")], cls="Conditional"),
    ]),
    dict(out="SrcCons", file="inference/consistency_sat.py", requires=["SrcCond"], funcs=[
        Fn("toImplicit", "py_toImplicit", [("conditionals", ("list", "cond"))]),
        Fn("consistency", "py_consistency", [("ckb", "bb"), ("solver", "str"), ("weakly", "bool")], ret_union=True),
        Fn("consistency_indices", "py_consistency_indices", [("ckb", "bb"), ("solver", "str"), ("weakly", "bool")], ret_union=True),
    ]),
    dict(out="SrcInf", file="inference/inference.py", requires=[], funcs=[
        Fn("_inference", "m_inference", [("query", "cond"), ("weakly", "bool"), ("deadline", "deadline")], cls="Inference", ret="bool", abstract=True),
        # as InferenceManager / single_inference call it: general_inference(query, deadline=deadline), weakly left at its default None
        Fn("general_inference", "py_general_inference", [("query", "cond"), ("weakly", "none"), ("deadline", "deadline")],
           cls="Inference", ret="bool", state=[("weakly", "es_weakly", "bool")]),
    ]),
    dict(out="SrcZ", file="inference/system_z.py", requires=["SrcCond", "SrcCons"], funcs=[
        Fn("_rec_inference", "py_SystemZ_rec_inference", [("solver", "solver"), ("partition_index", "int"), ("query", "cond")],
           cls="SystemZ", ret="bool", state=[("partition", "es_partition", PART_OBJ)]),
        Fn("_inference", "py_SystemZ_inference", [("query", "cond"), ("weakly", "bool"), ("deadline", "deadline")],
           cls="SystemZ", ret="bool", state=[("partition", "es_partition", PART_OBJ), ("smt_solver", "es_smt_solver", "str")]),
    ]),
    dict(out="SrcW", file="inference/system_w.py", requires=["SrcCond"], funcs=[
        Fn("any_subset_of_all", "py_w_any_subset_of_all", [("A", ("set", ("set", "int"))), ("B", ("set", ("set", "int")))]),
        Fn("_rec_inference", "py_SystemW_rec_inference", [("hard_constraints", "wcnf"), ("partition_index", "int"), ("deadline", "deadline")],
           cls="SystemW", ret="bool", state=W_STATE),
        Fn("_inference", "py_SystemW_inference", [("query", "cond"), ("weakly", "bool"), ("deadline", "deadline")],
           cls="SystemW", ret="bool", state=W_STATE + [("belief_base", "es_belief_base", "bb"), ("smt_solver", "es_smt_solver", "str")]),
    ]),
    dict(out="SrcLex", file="inference/lex_inf.py", requires=["SrcCond"], funcs=[
        Fn("_rec_inference", "py_LexInf_rec_inference",
           [("hard_constraints_v", "wcnf"), ("hard_constraints_f", "wcnf"), ("partition_index", "int"), ("deadline", "deadline")],
           cls="LexInf", ret="bool", state=W_STATE),
        Fn("_inference", "py_LexInf_inference", [("query", "cond"), ("weakly", "bool"), ("deadline", "deadline")],
           cls="LexInf", ret="bool", state=W_STATE + [("belief_base", "es_belief_base", "bb"), ("smt_solver", "es_smt_solver", "str")]),
    ]),
    dict(out="SrcZocf", file="inference/preocf.py", requires=["SrcCond"], funcs=[
        Fn("_rec_z_rank", "py_SystemZPreOCF_rec_z_rank", [("solver", "solver"), ("partition_index", "int")],
           cls="SystemZPreOCF", ret="int", state=[("@_z_partition", "at_z_partition", PART_OBJ)]),
        Fn("z_part2ocf", "py_SystemZPreOCF_z_part2ocf", [("world", "world")],
           cls="SystemZPreOCF", ret="int", state=[("@_z_partition", "at_z_partition", PART_OBJ)]),
        Fn("rank_world", "py_SystemZPreOCF_rank_world", [("world", "world"), ("force_calculation", "bool")],
           cls="SystemZPreOCF", ret="int", state=[("@_z_partition", "at_z_partition", PART_OBJ)], at_mut=[("ranks", ("wdict", "optint"))], locals_={"rank": "optint"}),
    ]),
    dict(out="SrcCondZ3", file="inference/conditional_z3.py", requires=[], funcs=[
        Fn("make_A_then_B", "py_z3_make_A_then_B", [("self", "cond")], cls="Conditional_z3"),
        Fn("make_A_then_not_B", "py_z3_make_A_then_not_B", [("self", "cond")], cls="Conditional_z3"),
        Fn("make_not_A_or_B", "py_z3_make_not_A_or_B", [("self", "cond")], cls="Conditional_z3"),
    ]),
    dict(out="SrcWZ3", file="inference/system_w_z3.py", requires=["SrcCondZ3"], cond_class="Conditional_z3", consts=Z3_CONSTS, funcs=[
        Fn("any_subset_of_all", "py_wz3_any_subset_of_all", [("A", ("set", ("set", "cond"))), ("B", ("set", ("set", "cond")))]),
        Fn("get_all_xi_i", "py_SystemWZ3_get_all_xi_i", [("opt", "zopt"), ("part", ("list", "cond"))],
           cls="SystemWZ3", ret=("set", ("set", "cond")), returns_state=["opt"]),
        Fn("_rec_inference", "py_SystemWZ3_rec_inference", [("opt", "zopt"), ("partition_index", "int"), ("query", "cond")],
           cls="SystemWZ3", ret="bool", state=[("partition", "es_partition", PART_OBJ)], returns_state=["opt"]),
        Fn("_inference", "py_SystemWZ3_inference", [("query", "cond"), ("weakly", "bool"), ("deadline", "none")],
           cls="SystemWZ3", ret="bool", state=[("partition", "es_partition", PART_OBJ)]),
    ]),
    dict(out="SrcLexZ3", file="inference/lex_inf_z3.py", requires=["SrcCondZ3"], cond_class="Conditional_z3", consts=Z3_CONSTS, funcs=[
        Fn("get_all_xi_i", "py_LexInfZ3_get_all_xi_i", [("opt", "zopt"), ("part", ("list", "cond"))],
           cls="LexInfZ3", ret=("set", ("set", "cond")), returns_state=["opt"]),
        Fn("_rec_inference", "py_LexInfZ3_rec_inference", [("opt_v", "zopt"), ("opt_f", "zopt"), ("partition_index", "int"), ("query", "cond")],
           cls="LexInfZ3", ret="bool", state=[("partition", "es_partition", PART_OBJ)], returns_state=["opt_v", "opt_f"]),
        Fn("_inference", "py_LexInfZ3_inference", [("query", "cond"), ("weakly", "bool"), ("deadline", "none")],
           cls="LexInfZ3", ret="bool", state=[("partition", "es_partition", PART_OBJ)]),
    ]),
    dict(out="SrcOcf", file="inference/preocf.py", requires=["SrcCond"], funcs=[
        Fn("rank_world", "m_rank_world", [("world", "world")], cls="PreOCF", ret="int", abstract=True),
        Fn("world_satisfies_conditionalization", "py_PreOCF_world_satisfies", [("world", "world"), ("conditionalization", "form")],
           cls="PreOCF", ret="bool"),
        Fn("filter_worlds_by_conditionalization", "py_PreOCF_filter_worlds", [("conditionalization", "form")],
           cls="PreOCF", state=RANKS),
        Fn("conditionalize_existing_ranks", "py_PreOCF_conditionalize_existing_ranks", [("conditionalization", "form")],
           cls="PreOCF", state=RANKS),
        Fn("compute_conditionalization", "py_PreOCF_compute_conditionalization", [("conditionalization", "form")],
           cls="PreOCF", state=RANKS),
        Fn("formula_rank", "py_PreOCF_formula_rank", [("formula", "form")], cls="PreOCF", ret="optint", state=RANKS,
           locals_={"min_rank": "optint"}),
        Fn("conditional_acceptance", "py_PreOCF_conditional_acceptance", [("conditional", "cond")], cls="PreOCF", ret="bool", state=RANKS),
    ]),
    dict(out="SrcCrep", file="inference/preocf.py", requires=["SrcCond"], funcs=[
        Fn("c_vec2ocf", "py_RandomMinCRepPreOCF_c_vec2ocf", [("world", "world")], cls="RandomMinCRepPreOCF", ret="int",
           state=[("@conditionals", "at_conditionals", ("dict", "cond")), ("@_impacts", "at_impacts", ("list", "int"))]),
        Fn("rank_world", "py_RandomMinCRepPreOCF_rank_world", [("world", "world"), ("force_calculation", "bool")], cls="RandomMinCRepPreOCF", ret="int",
           state=[("@conditionals", "at_conditionals", ("dict", "cond")), ("@_impacts", "at_impacts", ("list", "int"))],
           at_mut=[("ranks", ("wdict", "optint"))], locals_={"rank": "optint"}),
    ]),
    dict(out="SrcImp", file="inference/preocf.py", requires=[], funcs=[
        Fn("save_impacts", "py_save_impacts", [], cls="RandomMinCRepPreOCF", state=[("@_impacts", "at_impacts", ("list", "int"))]),
        Fn("load_impacts", "py_load_impacts", [("impacts", ("list", "int"))], cls="RandomMinCRepPreOCF",
           state=[("@conditionals", "at_conditionals", ("dict", "cond"))], at_mut=[("_impacts", ("list", "int"))], drop_calls=["save_meta"]),
    ]),
    dict(out="SrcTpo", file="inference/preocf.py", requires=[], funcs=[
        Fn("ranks2tpo", "py_ranks2tpo", [("ranks", ("wdict", "optint"))], locals_={"rank_groups": ("dict", WSET)}, narrow=["rank"]),
        Fn("tpo2ranks", "py_tpo2ranks", [("tpo", ("list", WSET)), ("rank_function", ("fn", ("int",), "int"))], locals_={"ranks": ("wdict", "optint")}),
        Fn("is_ocf", "py_PreOCF_is_ocf", [], cls="PreOCF", state=RANKS),
        Fn("marginalize", "py_PreOCF_marginalize", [("marginalization", ("list", "int"))], cls="PreOCF",
           state=RANKS + [("@signature", "at_signature", ("list", "int"))], locals_={"ranks": ("wdict", "optint")}),
    ]),
    dict(out="SrcOcfCustom", file="inference/preocf.py", requires=[], funcs=[
        Fn("rank_world", "py_CustomPreOCF_rank_world", [("world", "world"), ("force_calculation", "bool")], cls="CustomPreOCF", ret="int",
           state=RANKS, locals_={"rank": "optint"}),
    ]),
    dict(out="SrcC", file="inference/c_inference.py", requires=[], extra_imports=["PyInt"], funcs=[
        Fn("makeSummation", "py_makeSummation", [("minima", ("dict", ("list", ("list", "int"))))]),
        Fn("freshVars", "py_freshVars", [("i", "symidx")]),
        Fn("minima_encoding", "py_minima_encoding", [("mv", "iterm"), ("ssums", ("list", "iterm"))]),
        Fn("encoding", "py_CInference_encoding", [("etas", ("dict", "iterm")), ("vSums", ("dict", ("list", "iterm"))), ("fSums", ("dict", ("list", "iterm")))],
           cls="CInference"),
        Fn("translate", "py_CInference_translate", [], cls="CInference",
           state=[("belief_base", "es_belief_base", "bb"), ("vMin", "es_vMin", ("dict", ("list", ("list", "int")))), ("fMin", "es_fMin", ("dict", ("list", ("list", "int"))))]),
        Fn("compile_and_encode_query", "py_CInference_compile_and_encode_query", [("query", "cond"), ("deadline", "none")], cls="CInference",
           state=[("nf_cnf_dict", "es_nf_cnf_dict", ("dict", SCNF))],
           locals_={"vMin": PART_KEY, "fMin": PART_KEY, "xMins": PART_KEY}),
        Fn("compile_constraint", "py_CInference_compile_constraint", [("deadline", "none")], cls="CInference",
           state=[("nf_cnf_dict", "es_nf_cnf_dict", ("dict", SCNF)), ("v_cnf_dict", "es_v_cnf_dict", ("dict", SCNF)), ("f_cnf_dict", "es_f_cnf_dict", ("dict", SCNF))],
           es_mut=[("vMin", ("dict", PART_KEY)), ("fMin", ("dict", PART_KEY))], locals_={"xMins": PART_KEY}),
        Fn("@isolve", "m_isolve", [("constraints", ("list", "icon"))], ret="bool", abstract=True),
        Fn("_inference", "py_CInference_inference", [("query", "cond"), ("weakly", "bool"), ("deadline", "none")], cls="CInference",
           state=[("belief_base", "es_belief_base", "bb"), ("smt_solver", "es_smt_solver", "str"), ("@base_csp", "at_base_csp", ("list", "icon")),
                  ("nf_cnf_dict", "es_nf_cnf_dict", ("dict", SCNF))],
           locals_={"solver": "isolver"}),
    ]),
    dict(out="SrcOpt", file="inference/optimizer.py", requires=[], funcs=[
        Fn("get_violated_conditional", "py_get_violated_conditional", [("model", ("list", "int")), ("cost", "int"), ("ignore", ("list", "int"))], cls="Optimizer",
           state=[("nf_cnf_dict", "es_nf_cnf_dict", ("dict", ("list", ("list", "int"))))], locals_={"violated": ("set", "int")}),
        Fn("@pool_id", "m_pool_id", [("obj", "int")], ret="int", abstract=True),
        Fn("exclude_violated", "py_exclude_violated", [("violated", ("set", "int"))], cls="Optimizer",
           state=[("nf_cnf_dict", "es_nf_cnf_dict", ("dict", ("list", ("list", "int")))), ("pool", "es_pool", "pool")],
           locals_={"return_constraints": ("list", ("list", "int")), "helper_variables_clause": ("list", "int")}),
        Fn("remove_supersets", "py_remove_supersets", [("lst_of_sets", ("list", ("set", "int")))], locals_={"filtered": ("list", ("set", "int"))}),
    ]),
    dict(out="SrcCrev", file="inference/c_revision.py", requires=["SrcCond", "SrcOcf", "SrcC"], extra_imports=["PyInt"], funcs=[
        Fn("symbolize_minima_expression", "py_symbolize_minima", [("minima", ("dict", ("list", TRIPLE))), ("gamma_plus_zero", "bool")]),
        Fn("encoding", "py_crev_encoding", [("gammas", ("dict", ("tuple", ("iterm", "iterm")))), ("vSums", ("dict", ("list", "iterm"))), ("fSums", ("dict", ("list", "iterm")))]),
        Fn("translate_to_csp", "py_translate_to_csp", [("compilation", ("tuple", (("dict", ("list", TRIPLE)), ("dict", ("list", TRIPLE))))), ("gamma_plus_zero", "bool"),
                                                        ("fixed_gamma_plus", "none"), ("fixed_gamma_minus", "none")]),
        Fn("_literal_info", "py_literal_info", [("node", "form")], ret=("opt", ("tuple", ("int", "int")))),
        Fn("_extract_cond_masks", "py_extract_cond_masks", [("cond", "cond"), ("sig_index", ("dict", "int"))], ret=("opt", ("tuple", ("int", "int", "int", "int")))),
        Fn("compile_alt_fast", "py_compile_alt_fast", [("ranking_function", "preocf_s"), ("revision_conditionals", ("list", "cond"))],
           locals_={"vMin": ("dict", ("list", TRIPLE)), "fMin": ("dict", ("list", TRIPLE)), "accepted_list": ("list", "int"), "rejected_list": ("list", "int"),
                    "cond_masks": ("dict", ("opt", ("tuple", ("int", "int", "int", "int"))))}, narrow=["mask"]),
        Fn("compile_alt", "py_compile_alt", [("ranking_function", "preocf"), ("revision_conditionals", ("list", "cond"))],
           locals_={"vMin": ("dict", ("list", TRIPLE)), "fMin": ("dict", ("list", TRIPLE)), "acc_list": ("list", "int"), "rej_list": ("list", "int")}),
    ]),
    dict(out="SrcCrevFix", file="inference/c_revision.py", requires=["SrcC", "SrcCrev"], extra_imports=["PyInt"], funcs=[
        # translate_to_csp once more, with a dictionary of fixed gamma- values (the configuration of the recorded finding of C19)
        Fn("translate_to_csp", "py_translate_to_csp_fixed", [("compilation", ("tuple", (("dict", ("list", TRIPLE)), ("dict", ("list", TRIPLE))))), ("gamma_plus_zero", "bool"),
                                                              ("fixed_gamma_plus", "none"), ("fixed_gamma_minus", ("dict", "int"))]),
    ]),
    dict(out="SrcCrevM", file="inference/c_revision_model.py", requires=["SrcCond", "SrcOcf"], extra_imports=["PyInt"], funcs=[
        Fn("_literal_info", "py_cm_literal_info", [("node", "form")], ret=("opt", ("tuple", ("int", "int")))),
        Fn("_extract_cond_masks", "py_cm_extract_cond_masks", [("cond", "cond"), ("sig_index", ("dict", "int"))], ret=("opt", ("tuple", ("int", "int", "int", "int")))),
        Fn("rank_world", "m_rank_world", [("world", "world")], cls="PreOCF", ret="int", abstract=True),
        Fn("add_conditional", "py_CRevisionModel_add_conditional", [("cond", "cond")], cls="CRevisionModel",
           state=[("@sig_index", "at_sig_index", ("dict", "int")), ("@worlds", "at_worlds", ("list", "world")), ("@world_bits", "at_world_bits", ("wdict", ("list", "int"))),
                  ("@ranking_function", "at_ranking_function", "preocf_s")],
           at_mut=[("conds", ("dict", "cond")), ("masks", ("dict", ("opt", ("tuple", ("int", "int", "int", "int"))))), ("world_acc", ("wdict", ("set", "int"))), ("world_rej", ("wdict", ("set", "int")))],
           narrow=["mask"]),
        Fn("remove_conditional", "py_CRevisionModel_remove_conditional", [("index", "int")], cls="CRevisionModel",
           state=[("@worlds", "at_worlds", ("list", "world"))],
           at_mut=[("conds", ("dict", "cond")), ("masks", ("dict", ("opt", ("tuple", ("int", "int", "int", "int"))))), ("world_acc", ("wdict", ("set", "int"))), ("world_rej", ("wdict", ("set", "int")))]),
        Fn("to_compilation", "py_CRevisionModel_to_compilation", [], cls="CRevisionModel",
           state=[("@conds", "at_conds", ("dict", "cond")), ("@worlds", "at_worlds", ("list", "world")), ("@world_acc", "at_world_acc", ("wdict", ("set", "int"))),
                  ("@world_rej", "at_world_rej", ("wdict", ("set", "int"))), ("@ranking_function", "at_ranking_function", "preocf_s")],
           at_mut=[("_rank_cache", ("wdict", "int"))],
           locals_={"vMin": ("dict", ("list", TRIPLE)), "fMin": ("dict", ("list", TRIPLE))}),
    ]),
    dict(out="SrcDiag", file="inference/consistency_diagnostics.py", requires=["SrcCond", "SrcCons"], extra_imports=["PyStr"], consts={"@strings": True}, funcs=[
        Fn("_parse_fact", "py_parse_fact", [("entry", "form")]),
        Fn("_validate_fact_vars", "m_validate_fact_vars", [("signature", "str"), ("phi", "form")], ret="none", abstract=True),
        Fn("facts_jointly_satisfiable", "py_facts_jointly_satisfiable", [("signature", "str"), ("facts", ("list", "form"))], ret="bool",
           locals_={"formulas": ("list", "form")}),
        Fn("build_fact_conditionals", "py_build_fact_conditionals", [("signature", "str"), ("facts", ("list", "form")), ("start_index", "int")],
           locals_={"fact_conditionals": ("dict", "cond")}),
        Fn("augment_belief_base_with_facts", "py_augment_belief_base_with_facts", [("bb", "bb"), ("facts", ("list", "form"))]),
        Fn("_last_layer_size", "py_last_layer_size", [("partition", ("res", PART_OBJ))]),
        Fn("consistency_diagnostics", "py_consistency_diagnostics",
           [("belief_base", "bb"), ("extended", "bool"), ("uses_facts", "bool"), ("facts", ("list", "form")), ("solver", "str"), ("precomputed", "none"), ("on_inconsistent", "string")],
           locals_={"diag": ("sdict", "bool"), "base_part_ext": ("res", PART_OBJ)}),
    ]),
    dict(out="SrcVisit", file="parser/myVisitor.py", requires=[], extra_imports=["PyStr", "PyTree"], consts={"@strings": True}, funcs=[
        Fn("visit", "m_visit", [("tree", "ptree")], cls="myVisitor", ret="form", abstract=True),
        Fn("@name_index", "m_name_index", [("name", "string")], ret="int", abstract=True),
        Fn("visitOr", "py_visitOr", [("ctx", "ptree")], cls="myVisitor"),
        Fn("visitAnd", "py_visitAnd", [("ctx", "ptree")], cls="myVisitor"),
        Fn("visitNegation", "py_visitNegation", [("ctx", "ptree")], cls="myVisitor"),
        Fn("visitParen", "py_visitParen", [("ctx", "ptree")], cls="myVisitor"),
        Fn("visitVar", "py_visitVar", [("ctx", "ptree")], cls="myVisitor", drop_attr_calls=["sigcheck"]),
    ]),
    dict(out="SrcDisp", file="inference/inference_manager.py", requires=[], extra_imports=["PyStr"], consts={"@strings": True}, funcs=[
        Fn("create_inference_instance", "py_create_inference_instance", [("epistemic_state", "esdict")],
           state=[("inference_system", "es_inference_system", "string"), ("pmaxsat_solver", "es_pmaxsat_solver", "string"), ("smt_solver", "es_smt_solver", "string"),
                  ("belief_base", "es_belief_base", "bb")]),
    ]),
    dict(out="SrcP", file="inference/p_entailment.py", requires=["SrcCond", "SrcCons"], funcs=[
        Fn("_inference", "py_PEntailment_inference", [("query", "cond"), ("weakly", "bool"), ("deadline", "deadline")],
           cls="PEntailment", ret="bool", state=[("belief_base", "es_belief_base", "bb"), ("smt_solver", "es_smt_solver", "str")]),
    ]),
]


def header(requires, extra=()):
    h = "(* GENERATED by harness/translate.py from /repo's working tree - do not edit *)\n"
    h += "From InfOCF Require Import Core Tol Form PyLib%s.\nFrom Coq Require Import ZArith.\n" % "".join(" " + x for x in extra)
    for r in requires:
        h += "From InfOCFGen Require Import %s.\n" % r
    h += "\n"
    return h


def generate(repo):
    table = {}
    results = {}
    for tg in TARGETS:
        path = os.path.join(repo, tg["file"])
        out = header(tg["requires"], tg.get("extra_imports", ()))
        try:
            src = open(path).read()
            tree = ast.parse(src)
            consts = dict(tg.get("consts", {}))
            # _gamma(name) must be exactly the caching wrapper around Symbol(name, INT)
            want = ast.dump(ast.parse(GAMMA_SRC).body[0])
            consts["@gamma_is_symbol"] = any(isinstance(x, ast.FunctionDef) and x.name == "_gamma" and ast.dump(x) == want for x in tree.body)
            Ctx.cond_class = tg.get("cond_class", "Conditional")
            for fn in tg["funcs"]:
                table[(fn.cls + "." if fn.cls else "") + fn.name] = fn
            # recursion / forward references inside one class: declared return types make this one pass
            for fn in tg["funcs"]:
                if fn.abstract:
                    continue
                out += "(* %s:%s%s *)\n" % (tg["file"], fn.cls + "." if fn.cls else "", fn.name)
                out += translate_function(tree, fn, table, consts) + "\n"
            results[tg["out"]] = None
        except (Unsupported, SyntaxError, OSError) as e:
            msg = "%s: %s" % (tg["file"], e)
            out = ("(* GENERATED by harness/translate.py - the translation of %s FAILED *)\n"
                   "Definition translation_failed : unit := ltac:(fail \"%s\").\n" % (tg["file"], msg.replace('"', "'")))
            results[tg["out"]] = msg
        write_if_changed(os.path.join(GEN, tg["out"] + ".v"), out)
    return results


def write_if_changed(path, text):
    os.makedirs(os.path.dirname(path), exist_ok=True)
    if os.path.exists(path) and open(path).read() == text:
        return
    with open(path, "w") as f:
        f.write(text)


if __name__ == "__main__":
    repo = sys.argv[1] if len(sys.argv) > 1 else os.environ.get("VERIF_REPO", "/repo")
    res = generate(repo)
    for k, m in res.items():
        print("%s: %s" % (k, "ok" if m is None else "FAILED " + m))
