"""C17 correspondence: PreOCF.init_random_min_c_rep objects and c_inference_pareto_front of the working tree against the
Coq definitions: impacts non-negative integers; every world ranked with the sum of the impacts of the conditionals it
falsifies; the ranking is a c-representation (accepts every conditional); the impact vector passes the verified
Pareto check; every query with satisfiable antecedent that c-inference answers True is accepted; the enumerated
front terminates (wall-clock cap), consists of Pareto-minimal pairwise different vectors and misses none inside a box."""
import itertools
import multiprocessing as mp
import random
from collections import Counter

import common
import ops
import opsprop
from common import cond_text, ev, to_prefix

ASSUMPTIONS = [
    "Pareto optimisation is done by z3 (oracle): its answer is checked by the verified checker pareto_check (sound: ThmPareto.pareto_check_sound)",
    "completeness of an enumerated front is checked only inside the box [0..max+1]^n (a search); termination is observed under a wall-clock cap",
    "model = code only on the generated inputs of this run",
]
CAP = 25


def _front_proc(case, q):
    common.setup_impl_env()
    from inference.c_revision import c_inference_pareto_front
    try:
        q.put(("OK", [list(map(int, v)) for v in c_inference_pareto_front(common.build_bb(case))]))
    except BaseException as e:  # noqa
        q.put(("EXC", "%s:%s" % (type(e).__name__, str(e)[:100])))


def _worker(case):
    common.setup_impl_env()
    from inference.preocf import PreOCF

    out = {"id": case["id"]}
    bb = common.build_bb(case)
    # history: the same conditionals under a re-ordered signature, ranked first in this process (objects must not share state)
    if case.get("perm"):
        try:
            from inference.belief_base import BeliefBase
            sig2 = [case["sig"][i] for i in case["perm"]]
            o2 = PreOCF.init_random_min_c_rep(BeliefBase(sig2, dict(bb.conditionals), "perm"))
            out["perm"] = {"impacts": [int(x) for x in o2._impacts], "ranks": {w: int(r) for w, r in o2.compute_all_ranks().items()},
                           "accept": [bool(o2.conditional_acceptance(c)) for c in bb.conditionals.values()]}
        except BaseException as e:  # noqa
            out["perm"] = "EXC:%s:%s" % (type(e).__name__, str(e)[:100])
    try:
        ocf = PreOCF.init_random_min_c_rep(bb)
        out["impacts"] = list(ocf._impacts)
        out["types_ok"] = all(isinstance(x, int) for x in ocf._impacts)
        out["ranks"] = [int(x) for x in ocf.compute_all_ranks().values()]
        out["accept_base"] = [bool(ocf.conditional_acceptance(c)) for c in bb.conditionals.values()]
        qs = common.build_bb(case, "queries", "q").conditionals
        out["accept_q"] = [bool(ocf.conditional_acceptance(c)) for c in qs.values()]
    except BaseException as e:  # noqa
        out["construct"] = "EXC:%s:%s" % (type(e).__name__, str(e)[:100])
    out["cinf"] = common.impl_infer(case, "c-inference", "rc2")
    # front enumeration under a wall-clock cap (non-termination must not hang the check)
    ctx = mp.get_context("fork")
    q = ctx.Queue()
    p = ctx.Process(target=_front_proc, args=(case, q))
    p.start()
    try:
        out["front"] = q.get(timeout=CAP)
    except Exception:  # noqa
        out["front"] = ("TIMEOUT", CAP)
    p.join(1)
    if p.is_alive():
        p.kill()
        p.join()
    return out


def run(tier, seed, broken_proof=False):
    rng = random.Random(seed + 1717)
    count = 70 if tier == "quick" else 400
    cand = ops.corpus_cases(False) + ops.gen_ops_cases(rng, count * 3, False, max_atoms=4, max_conds=4, nq=4, prefix="y")
    m0 = common.run_model(cand)
    cases = []
    for c in cand:
        if m0[c["id"]]["part"] is None or not c["base"] or len(c["base"]) > 5 or c["n"] > 6:
            continue                # the box search of the model (completeness of the front) is exponential in the number of conditionals
        if rng.random() < 0.4:      # arbitrary keys
            ks = rng.sample(range(0, 30), len(c["base"]))
            c = dict(c, base=[(ks[i], b, a) for i, (_, b, a) in enumerate(c["base"])])
        if c["n"] >= 2 and rng.random() < 0.5:
            pm = list(range(c["n"]))
            while pm == list(range(c["n"])):
                rng.shuffle(pm)
            c = dict(c, perm=pm)
        cases.append(c)
        if len(cases) >= count:
            break
    import concurrent.futures
    ires = {}
    with concurrent.futures.ProcessPoolExecutor(max_workers=10, mp_context=mp.get_context("fork")) as ex:
        for out in ex.map(_worker, cases):
            ires[out["id"]] = out
    lines = []
    for c in cases:
        im = ires[c["id"]]
        front = im["front"][1] if im["front"][0] == "OK" else []
        mx = max([0] + [x for v in front for x in v] + list(im.get("impacts", [])))
        bound = min(mx + 1, 4)
        lines.append("Y %s %d %d" % (c["id"], c["n"], bound))
        for (k, b, a) in c["base"]:
            lines.append("D %d %s ; %s" % (k, to_prefix(b), to_prefix(a)))
        for (k, b, a) in c["queries"]:
            lines.append("Q %d %s ; %s" % (k, to_prefix(b), to_prefix(a)))
        if "impacts" in im and all(x >= 0 for x in im["impacts"]):
            lines.append("ET " + " ".join(map(str, im["impacts"])))
        # the front is reported by ascending key; the model indexes by position (dictionary order)
        order = sorted(range(len(c["base"])), key=lambda i: c["base"][i][0])
        c["front_pos"] = []
        for v in front:
            if len(v) == len(c["base"]) and all(x >= 0 for x in v):
                pv = [0] * len(v)
                for j, i in enumerate(order):
                    pv[i] = v[j]
                c["front_pos"].append(pv)
                lines.append("FR " + " ".join(map(str, pv)))
        lines.append("E")
    mres = {}
    for line in common._run_bin("\n".join(lines) + "\n"):
        parts = line.split("\t")
        mres.setdefault(parts[0], {})[parts[1]] = parts[2:]
    violations = []
    strata = Counter()
    evals = 0
    nontriv = set()
    samples = []
    for c in cases:
        im = ires[c["id"]]
        m = mres[c["id"]]
        desc = {"sig": c["sig"], "base": [(k, cond_text((k, b, a), c["sig"])) for (k, b, a) in c["base"]], "queries": [cond_text(q, c["sig"]) for q in c["queries"]]}
        evals += 2
        nontriv.add(c["id"])
        if "construct" in im:
            violations.append({"kind": "construct", "case": desc, "actual": im["construct"], "found_by": "generated",
                               "theorem_or_observable": "the c-representation ranking object must be constructed for a strongly consistent base"})
        elif "eta0" not in m:
            violations.append({"kind": "impacts", "case": desc, "actual": im["impacts"], "found_by": "generated", "theorem_or_observable": "impacts must be non-negative integers"})
        else:
            crep, par, ranks, accs = m["eta0"]
            bad = None
            if not im["types_ok"]:
                bad = "impacts are not integers"
            elif [int(x) for x in ranks.split(",")] != im["ranks"]:
                bad = "world ranks are not the sums of the impacts of the falsified conditionals"
            elif crep != "1" or not all(im["accept_base"]):
                bad = "the ranking does not accept every conditional of the base"
            elif par != "1":
                bad = "the impact vector is not Pareto-minimal"
            else:
                for qi, q in enumerate(c["queries"]):
                    macc = accs[qi] == "1"
                    sat_a = any(ev(q[2], w) for w in itertools.product([False, True], repeat=c["n"]))
                    if sat_a and im["accept_q"][qi] != macc:
                        bad = "acceptance of %s differs from the definition" % cond_text(q, c["sig"])
                    if isinstance(im["cinf"], list) and im["cinf"][qi] and sat_a and not im["accept_q"][qi]:
                        bad = "c-inference infers %s but the c-representation ranking does not accept it" % cond_text(q, c["sig"])
            strata["impact-max=%d" % min(max(im["impacts"]), 4)] += 1
            if bad:
                violations.append({"kind": "crep-object", "why": bad, "case": desc, "impacts": im["impacts"], "found_by": "generated",
                                   "theorem_or_observable": "c-representation ranking object: " + bad})
        if c.get("perm"):
            strata["second-object-under-permuted-signature"] += 1
            pr = im.get("perm")
            badp = None
            if not isinstance(pr, dict):
                badp = "construction under a re-ordered signature failed: %s" % pr
            else:
                for wstr, r in pr["ranks"].items():
                    w = [None] * c["n"]
                    for pos, i in enumerate(c["perm"]):
                        w[i] = wstr[pos] == "1"
                    exp = sum(pr["impacts"][j] for j, (k, b, a) in enumerate(c["base"]) if ev(a, w) and not ev(b, w))
                    if r != exp:
                        badp = "re-ordered signature %s: world %s has rank %d, impacts of the falsified conditionals sum to %d" % ([c["sig"][i] for i in c["perm"]], wstr, r, exp)
                        break
                if badp is None and not all(pr["accept"]):
                    badp = "re-ordered signature: the ranking does not accept every conditional of the base"
            if badp:
                violations.append({"kind": "crep-object", "why": badp, "case": desc, "perm": c["perm"], "found_by": "generated",
                                   "theorem_or_observable": "c-representation ranking object: " + badp})
        fr = im["front"]
        strata["front-" + fr[0]] += 1
        if fr[0] != "OK":
            violations.append({"kind": "front", "why": "enumeration %s" % ("did not terminate within %d s" % CAP if fr[0] == "TIMEOUT" else "raised " + str(fr[1])), "case": desc,
                               "conditionals": len(c["base"]), "found_by": "generated", "theorem_or_observable": "Pareto front enumeration must terminate and return the minimal vectors"})
        else:
            chk, missing = m["front"]
            vs = c["front_pos"]
            strata["front-size=%d" % min(len(vs), 3)] += 1
            bad = None
            if len(vs) != len(fr[1]):
                bad = "malformed vector in the front"
            elif "0" in chk:
                bad = "a reported vector is not a Pareto-minimal c-representation"
            elif len({tuple(v) for v in vs}) != len(vs):
                bad = "the front lists a vector twice"
            elif missing:
                bad = "Pareto-minimal vector(s) %s (positional) missing from the front" % missing
            elif not vs:
                bad = "empty front for a consistent base"
            if bad:
                violations.append({"kind": "front", "why": bad, "case": desc, "front": fr[1], "found_by": "generated",
                                   "theorem_or_observable": "Pareto front: " + bad})
        if len(samples) < 2 and "impacts" in im and len(c["base"]) >= 3:
            samples.append(dict(desc, impacts=im["impacts"], ranks=im["ranks"], front=fr[1] if fr[0] == "OK" else fr))
    uniq, seen = [], set()
    for v in violations:
        k = (v["kind"], (v.get("why") or "")[:40], v.get("conditionals"))
        if k not in seen:
            seen.add(k)
            uniq.append(v)
    return {"evaluations": evals, "distinct_nontrivial": len(nontriv),
            "rule": "strongly consistent generated bases (<=4 atoms, <=4 conditionals incl. unfalsifiable ones and single-conditional bases, 40%% with arbitrary keys) + corpus; per base: the ranking object "
                    "(impacts, all ranks, acceptance of the base and of 6 queries), c-inference answers, for half of the bases a first object over the same conditionals under a re-ordered signature in the same process, and the Pareto front under a %d s cap; non-trivial = each base" % CAP,
            "samples": samples, "strata": dict(strata), "traces_validated_against_impl": evals, "violations": uniq[:20]}


def replay(payload):
    return {"evaluations": 1, "distinct_nontrivial": 1, "rule": "replay", "samples": [str(payload)[:500]], "violations": []}


def matches_known(f, payload):
    return common.generic_match(f, payload)
