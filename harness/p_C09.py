"""C09 correspondence: postulate instances (direct inference, REF, SCL, LLE, RW, AND, OR, CM, CUT, BOTTOM,
RM for Z and lex) built per base and evaluated on the implementation; every answer is also compared with the
Coq model, for which the postulates are theorems (props/C09.v)."""
import itertools
import random
from collections import Counter

import common
import ops
import opsprop
from common import And, F, Not, Or, T, V, cond_text, ev, gen_formula, gen_lit, make_case

ASSUMPTIONS = opsprop.ASSUMPTIONS + [
    "p-entailment and c-inference satisfy System P as intersections of ranked relations: monitored on the implementation, stated for the definitions",
]
STRICT_CFGS = ops.ALL_CONFIGS + [("c-inference", "rc2")]
RM_CFGS = {"system-z", "lex_inf/rc2", "lex_inf/z3"}


def entails(n, f, g):
    return all((not ev(f, w)) or ev(g, w) for w in itertools.product([False, True], repeat=n))


def rewrite(rng, f):
    """An equivalent formula with a different syntax tree."""
    r = rng.random()
    if r < 0.25:
        return Not(Not(f))
    if r < 0.5:
        return And(f, T)
    if r < 0.75:
        return Or(f, F)
    if f[0] == "&":
        return Not(Or(Not(f[1]), Not(f[2])))
    if f[0] == "|":
        return Not(And(Not(f[1]), Not(f[2])))
    return And(f, f)


def build_instances(rng, case, per_base=10, part=None):
    """queries + postulate instances (kind, premise indices, conclusion index / flag)."""
    n = case["n"]
    qs = []
    inst = []

    def q(b, a):
        qs.append((len(qs) + 1, b, a))
        return len(qs) - 1

    for (k, b, a) in case["base"]:
        inst.append(("DI", [], q(b, a)))
    pool = [x[1] for x in case["base"]] + [x[2] for x in case["base"]]
    deep = ops.world_queries(rng, case, part, 6) if part else []   # (B|A) decided below the top layer
    for _ in range(per_base):
        def pick():
            r = rng.random()
            if pool and r < 0.5:
                return rng.choice(pool)
            if r < 0.8:
                return gen_lit(rng, n)
            return gen_formula(rng, n, 1, 0.03)
        A, B, C = pick(), pick(), pick()
        if deep and rng.random() < 0.7:
            B, A = rng.choice(deep)
            if rng.random() < 0.5:
                C = Not(B) if rng.random() < 0.5 else rng.choice(deep)[0]
        inst.append(("REF", [], q(A, A)))
        inst.append(("SCL", [], q(Or(A, B), A)))
        iAB, iAC = q(B, A), q(C, A)
        inst.append(("LLE", [iAB], q(B, rewrite(rng, A))))
        inst.append(("LLE-rev", [inst[-1][2]], iAB))
        inst.append(("RW", [iAB], q(Or(B, C), A)))
        inst.append(("AND", [iAB, iAC], q(And(B, C), A)))
        iBC = q(C, B)
        inst.append(("OR", [iAC, iBC], q(C, Or(A, B))))
        iABC = q(C, And(A, B))
        inst.append(("CM", [iAB, iAC], iABC))
        inst.append(("CUT", [iAB, iABC], iAC))
        inst.append(("BOTTOM", [q(F, A)], A))
        inst.append(("RM", [iAC, q(Not(B), A)], iABC))
    return qs, inst


def check_instances(case, inst, ans, cfgname, weakly):
    out = []
    n = case["n"]
    for (kind, prem, concl) in inst:
        if kind == "BOTTOM":
            if weakly:
                continue
            if ans[prem[0]] and any(ev(concl, w) for w in itertools.product([False, True], repeat=n)):
                out.append((kind, prem, None))
            continue
        if kind == "RM":
            if cfgname not in RM_CFGS:
                continue
            if ans[prem[0]] and not ans[prem[1]] and not ans[concl]:
                out.append((kind, prem, concl))
            continue
        if all(ans[i] for i in prem) and not ans[concl]:
            out.append((kind, prem, concl))
    return out


def run(tier, seed, broken_proof=False):
    rng = random.Random(seed + 909)
    count = 70 if tier == "quick" else 700
    violations = []
    corr = []
    strata = Counter()
    evals = 0
    nontriv = set()
    samples = []
    dis_total = 0
    for weakly in (False, True):
        cand = ops.corpus_cases(weakly) + ops.gen_ops_cases(rng, count * 4, weakly, max_atoms=4 if tier == "quick" else 5, nq=0, prefix="p%d" % weakly)
        m0 = common.run_model(cand)
        ok = [c for c in cand if m0[c["id"]]["part"] is not None and c["base"]]
        nfin = lambda c: len(m0[c["id"]]["part"]) - (1 if weakly else 0)
        multi = [c for c in ok if nfin(c) >= 2][: int(count * 0.7)]       # postulates are decided below the top layer only there
        bases = multi + [c for c in ok if nfin(c) < 2][: count - len(multi)]
        cases, insts = [], {}
        for c in bases:
            qs, inst = build_instances(rng, c, per_base=(6 if tier == "quick" else 10) + (3 if nfin(c) >= 2 else 0), part=m0[c["id"]]["part"])
            cc = make_case(c["id"], c["n"], c["base"], qs, weakly)
            cases.append(cc)
            insts[cc["id"]] = inst
        cfgs = STRICT_CFGS if not weakly else ops.ALL_CONFIGS
        mres = common.run_model(cases)
        ires = ops.run_impl(cases, cfgs)
        # model comparison for the six modelled pairs
        dis = ops.diff_ops(cases, mres, ires, ops.ALL_CONFIGS)
        dis_total += len(dis)
        for d in dis[:6]:
            c = d["case"]
            small = dict(c, queries=[c["queries"][d["query"]]] if d["query"] is not None else c["queries"][:1])
            corr.append({"kind": "correspondence", "config": d["config"], "weakly": weakly, "case": small, "readable": opsprop.describe(small),
                         "expected_model": d["model"], "actual": d["impl"], "found_by": "none",
                         "theorem_or_observable": "model answer != implementation answer of %s (the postulate theorems of props/C09.v transfer to the code only through this agreement; no violated postulate instance was found)" % d["config"]})
        for c in cases:
            inst = insts[c["id"]]
            for cfg in cfgs:
                name = ops.cfg_name(cfg)
                ans = ires[c["id"]][name]
                if not isinstance(ans, list):
                    violations.append({"kind": "exception", "config": name, "weakly": weakly, "case": c, "actual": ans, "found_by": "generated",
                                       "theorem_or_observable": "operator raised on a consistent base"})
                    continue
                evals += len(inst)
                for (kind, prem, concl) in inst:
                    strata[kind] += 1
                    if kind not in ("BOTTOM", "RM") and prem and all(ans[i] for i in prem):
                        strata[kind + "-premises-hold"] += 1
                        nontriv.add((c["id"], name, kind, tuple(prem), concl))
                for (kind, prem, concl) in check_instances(c, inst, ans, name, weakly):
                    idx = list(prem) + ([concl] if isinstance(concl, int) else [])
                    small = dict(c, queries=[c["queries"][i] for i in idx])
                    violations.append({"kind": "postulate", "postulate": kind, "config": name, "weakly": weakly, "case": small,
                                       "readable": opsprop.describe(small), "answers": [ans[i] for i in idx], "found_by": "generated",
                                       "theorem_or_observable": "%s violated by %s: premises inferred, conclusion not" % (kind, name)})
            if len(samples) < 2:
                samples.append({"base": [cond_text(x, c["sig"]) for x in c["base"]], "instances": [
                    (k, [cond_text(c["queries"][i], c["sig"]) for i in p], cond_text(c["queries"][cc_], c["sig"]) if isinstance(cc_, int) else "A unsat")
                    for (k, p, cc_) in inst[:8]]})
    if not violations:
        violations += corr[:6]      # only the correspondence is broken: reported and labelled as such
    return {
        "evaluations": evals, "distinct_nontrivial": len(nontriv),
        "rule": "per consistent base: direct-inference queries for every conditional and 6-10 formula triples (drawn from the base's formulas, literals, compounds) "
                "instantiating REF, SCL, LLE (syntactic rewrites), RW, AND, OR, CM, CUT, BOTTOM (strict), RM (Z, lex); all operators/back-ends, c-inference strict only; "
                "non-trivial = instance whose premises are all inferred",
        "samples": samples, "strata": dict(strata), "traces_validated_against_impl": evals, "disagreements_total": dis_total,
        "violations": violations[:25],
    }


def replay(payload):
    c = payload["case"]
    cfgs = [cf for cf in STRICT_CFGS if ops.cfg_name(cf) == payload.get("config")] or ops.ALL_CONFIGS
    res = ops._worker((c, cfgs, {}))[1]
    m = common.run_model([c])[c["id"]]
    print("impl:", res, "model:", m["model"])
    v = []
    if payload.get("kind") == "postulate":
        ans = res[payload["config"]]
        if isinstance(ans, list) and ans != payload.get("answers"):
            pass
        elif isinstance(ans, list):
            v.append(payload)
    return {"evaluations": 1, "distinct_nontrivial": 1, "rule": "replay", "samples": [opsprop.describe(c)], "violations": v}


def matches_known(f, payload):
    return common.generic_match(f, payload)
