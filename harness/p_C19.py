"""C19 correspondence: c-revision of the working tree against the Coq model: (i) the reference, fast and incremental
compilations (after random add/remove sequences) against the model's compilation; (ii) the returned parameters
against the definition: non-negative, fixed values respected, the revised ranking accepts every revision conditional
(decided by the Coq definitions on the returned values - exact); 'None' only when an independent definition-level z3
encoding finds no parameters; no exception; gamma- Pareto-minimal when gamma+ = 0 (finite box enumerated)."""
import itertools
import random
from collections import Counter

import common
import ops
from common import cond_text, ev, gen_formula, gen_lit, to_cl, to_prefix

ASSUMPTIONS = [
    "existence of parameters and Pareto-minimality are decided by z3 in the implementation (oracle); the harness cross-checks 'None' with an independent encoding over enumerated worlds and minimality by enumerating the finite box below the returned vector",
    "model = code only on the generated inputs of this run",
]


def bits(w):
    return "".join("1" if b else "0" for b in w)


def spec_exists(case, gpz, fixp, fixm):
    """Definition level: do parameters exist such that the revised ranking accepts every conditional?"""
    import z3

    n = case["n"]
    worlds = list(itertools.product([False, True], repeat=n))
    rank = {bits(w): r for (w, r) in [(tuple(int(c) == 1 for c in ws), r) for ws, r in case["prior"]]}
    conds = case["conds"]
    gp = {k: (z3.IntVal(fixp[k]) if k in fixp else (z3.IntVal(0) if gpz else z3.Int("gp%d" % k))) for (k, _, _) in conds}
    gm = {k: (z3.IntVal(fixm[k]) if k in fixm else z3.Int("gm%d" % k)) for (k, _, _) in conds}

    def kstar(w):
        t = [z3.IntVal(rank[bits(w)])]
        for (k, b, a) in conds:
            if ev(a, w):
                t.append(gp[k] if ev(b, w) else gm[k])
        return z3.Sum(t)

    s = z3.Solver()
    for d in (gp, gm):
        for v in d.values():
            if z3.is_const(v) and v.decl().kind() == z3.Z3_OP_UNINTERPRETED:
                s.add(v >= 0)
    for (k, b, a) in conds:
        vs = [w for w in worlds if ev(a, w) and ev(b, w)]
        fs = [w for w in worlds if ev(a, w) and not ev(b, w)]
        if not vs:
            return False
        if fs:
            s.add(z3.Or([z3.And([kstar(v) < kstar(f) for f in fs]) for v in vs]))
    return s.check() == z3.sat


def _worker(case):
    common.setup_impl_env()
    from inference.c_revision import c_revision, compile_alt, compile_alt_fast
    from inference.c_revision_model import CRevisionModel
    from inference.conditional import Conditional
    from inference.preocf import PreOCF

    sig = case["sig"]
    out = {"id": case["id"]}

    def mk(k, b, a):
        c = Conditional(common.to_pysmt(b, sig), common.to_pysmt(a, sig), cond_text((k, b, a), sig))
        c.index = k
        return c

    def canon(comp):
        return [{int(k): [(int(t[0]), sorted(int(x) for x in t[1]), sorted(int(x) for x in t[2])) for t in v] for k, v in d.items()} for d in comp]

    try:
        ocf = PreOCF.init_custom(dict(case["prior"]), None, list(sig))
        conds = [mk(*c) for c in case["conds"]]
        out["alt"] = canon(compile_alt(ocf, conds))
        out["fast"] = canon(compile_alt_fast(ocf, conds))
        m = CRevisionModel(ocf, [])
        errs = 0
        out["inc_mid"] = []
        for op in case["ops"]:
            try:
                if op[0] == "A":
                    m.add_conditional(mk(op[1], op[2], op[3]))
                elif op[0] == "C":
                    out["inc_mid"].append((canon(m.to_compilation()), [int(k) for k in m.conds.keys()]))
                else:
                    m.remove_conditional(op[1])
            except ValueError:
                errs += 1
        out["inc"] = canon(m.to_compilation())
        out["inc_keys"] = [int(k) for k in m.conds.keys()]
    except Exception as e:  # noqa
        out["compile_error"] = "EXC:%s:%s" % (type(e).__name__, str(e)[:100])
        return out
    out["revisions"] = []
    for (gpz, fixp, fixm, use_model) in case["modes"]:
        rec = {"gpz": gpz, "fixp": fixp, "fixm": fixm, "use_model": use_model}
        try:
            kw = {}
            if use_model:
                kw["model"] = CRevisionModel(ocf, conds)
            r = c_revision(ocf, conds, gamma_plus_zero=gpz, fixed_gamma_minus=dict(fixm) or None, fixed_gamma_plus=dict(fixp) or None, **kw)
            rec["result"] = None if r is None else {k: int(v) for k, v in r.items() if k.startswith("gamma")}
            if r is not None:
                rec["types_ok"] = all(isinstance(v, int) for k, v in r.items() if k.startswith("gamma"))
        except BaseException as e:  # noqa
            rec["result"] = "EXC:%s:%s" % (type(e).__name__, str(e)[:100])
        if rec["result"] is None:
            try:
                rec["spec_exists"] = spec_exists(case, gpz, dict(fixp), dict(fixm))
            except Exception as e:  # noqa
                rec["spec_exists"] = "EXC:" + str(e)[:80]
        out["revisions"].append(rec)
    return out


def parse_comp(s):
    def side(t):
        d = {}
        for item in t.split(" "):
            if not item:
                continue
            k, ts = item.split("=")
            lst = []
            if ts:
                for tr in ts.split(";"):
                    r, a, j = tr.split(":")
                    lst.append((int(r), sorted(int(x) for x in a.split(",") if x), sorted(int(x) for x in j.split(",") if x)))
            d[int(k)] = lst
        return d
    v, f = s.split("/")
    return [side(v), side(f)]


def run(tier, seed, broken_proof=False):
    rng = random.Random(seed + 1919)
    count = 160 if tier == "quick" else 1000
    cases = []
    for i in range(count):
        n = rng.randrange(1, 5 if tier == "quick" else 6)
        sig = common.ATOM_NAMES[:n]
        worlds = [bits(w) for w in itertools.product([False, True], repeat=n)]
        hi = rng.choice([0, 0, 1, 2, 3, 6, 9])      # wide spreads: a candidate "rank + gamma of another conditional" can undercut a parameter-free one
        prior = [(w, rng.randrange(0, hi + 1)) for w in worlds]
        m = rng.randrange(1, 4)
        keys = rng.sample(range(1, 12), m)
        conds = []
        shared = gen_lit(rng, n) if rng.random() < 0.3 else None      # conditionals with one antecedent interact in every world of it
        for k in keys:
            r = rng.random()
            if shared is not None:
                conds.append((k, gen_lit(rng, n), shared if rng.random() < 0.8 else common.T))
            elif r < 0.55:
                conds.append((k, gen_lit(rng, n), gen_lit(rng, n)))
            else:
                conds.append((k, gen_formula(rng, n, 1, 0.05), gen_formula(rng, n, 1, 0.05)))
        opsl = []
        live = []
        for _ in range(rng.randrange(2, 8)):
            if rng.random() < 0.25:
                opsl.append(("C",))
                continue
            if live and rng.random() < 0.3:
                # replace a registered conditional by a different one under the same index, compiling before and after
                k = rng.choice(live)
                f = (gen_lit(rng, n), gen_lit(rng, n)) if rng.random() < 0.6 else (gen_formula(rng, n, 1, 0.05), gen_formula(rng, n, 1, 0.05))
                opsl += [("C",), ("R", k), ("A", k, f[0], f[1]), ("C",)]
                continue
            if live and rng.random() < 0.35:
                k = rng.choice(live + [99])
                opsl.append(("R", k))
                if k in live:
                    live.remove(k)
            else:
                k = rng.choice([x for x in range(1, 7)])       # few indices: removed indices are re-used by different conditionals
                f = (gen_lit(rng, n), gen_lit(rng, n)) if rng.random() < 0.6 else (gen_formula(rng, n, 1, 0.05), gen_formula(rng, n, 1, 0.05))
                opsl.append(("A", k, f[0], f[1]))
                if k not in live:
                    live.append(k)
        modes = []
        for _ in range(3):
            gpz = rng.random() < 0.6
            fixp = sorted({k: rng.randrange(0, 3) for k in keys if rng.random() < 0.2}.items()) if not gpz and rng.random() < 0.5 else []
            fixm = sorted({k: rng.randrange(0, 4) for k in keys if rng.random() < 0.25}.items()) if rng.random() < 0.4 else []
            modes.append((gpz, fixp, fixm, rng.random() < 0.3))
        cases.append({"id": "v%d" % i, "n": n, "sig": sig, "prior": prior, "conds": conds, "ops": opsl, "modes": modes})
    ires = {}
    for out in ops.pool().imap_unordered(_worker, cases, chunksize=2):
        ires[out["id"]] = out
    lines = []
    for c in cases:
        lines.append("V %s %d" % (c["id"], c["n"]))
        for w, r in c["prior"]:
            lines.append("W %s %d" % (w, r))
        for (k, b, a) in c["conds"]:
            lines.append("D %d %s ; %s" % (k, to_prefix(b), to_prefix(a)))
        for op in c["ops"]:
            if op[0] == "A":
                lines.append("NA %d %s ; %s" % (op[1], to_prefix(op[2]), to_prefix(op[3])))
            elif op[0] == "R":
                lines.append("NR %d" % op[1])
        im = ires[c["id"]]
        c["checks"] = []
        for ri, rec in enumerate(im.get("revisions", [])):
            if isinstance(rec["result"], dict):
                keys = [k for (k, _, _) in c["conds"]]
                gp = {k: rec["result"].get("gamma+_%d" % k, 0) for k in keys}
                gm = {k: rec["result"].get("gamma-_%d" % k, 0) for k in keys}
                if all(v >= 0 for v in list(gp.values()) + list(gm.values())):
                    lines.append("GA p " + " ".join("%d %d" % kv for kv in gp.items()) + " m " + " ".join("%d %d" % kv for kv in gm.items()))
                    c["checks"].append(("ret", ri))
                    # Pareto-minimality (gamma+ = 0): every vector strictly below in the free components must fail
                    if rec["gpz"] and not rec["fixp"]:
                        free = [k for k in keys if k not in dict(rec["fixm"])]
                        ranges = [range(gm[k] + 1) for k in free]
                        nbox = 1
                        for r_ in ranges:
                            nbox *= len(r_)
                        if 1 < nbox <= 400:
                            for vec in itertools.product(*ranges):
                                if all(v == gm[k] for v, k in zip(vec, free)):
                                    continue
                                g2 = dict(gm)
                                g2.update(dict(zip(free, vec)))
                                lines.append("GA p " + " ".join("%d 0" % k for k in keys) + " m " + " ".join("%d %d" % kv for kv in g2.items()))
                                c["checks"].append(("below", ri))
        lines.append("E")
        # one extra model case per intermediate compilation: the operations up to that point
        ci = 0
        for pos, op in enumerate(c["ops"]):
            if op[0] == "C":
                lines.append("V %s~c%d %d" % (c["id"], ci, c["n"]))
                for w, r in c["prior"]:
                    lines.append("W %s %d" % (w, r))
                for op2 in c["ops"][:pos]:
                    if op2[0] == "A":
                        lines.append("NA %d %s ; %s" % (op2[1], to_prefix(op2[2]), to_prefix(op2[3])))
                    elif op2[0] == "R":
                        lines.append("NR %d" % op2[1])
                lines.append("E")
                ci += 1
        c["ncompiles"] = ci
    mres = {}
    for line in common._run_bin("\n".join(lines) + "\n"):
        parts = line.split("\t")
        mres.setdefault(parts[0], {})[parts[1]] = parts[2:]
    violations = []
    strata = Counter()
    evals = 0
    nontriv = set()
    samples = []
    for c in cases:
        im = ires[c["id"]]
        m = mres[c["id"]]
        desc = {"sig": c["sig"], "prior": c["prior"], "conds": [(k, cond_text((k, b, a), c["sig"])) for (k, b, a) in c["conds"]]}
        if "compile_error" in im:
            violations.append({"kind": "compile-exception", "case": desc, "actual": im["compile_error"], "found_by": "generated", "theorem_or_observable": "compilation raised"})
            continue
        exp = parse_comp(m["alt"][0])
        evals += 3
        for tag in ("alt", "fast"):
            if im[tag] != exp:
                violations.append({"kind": "compilation", "which": tag, "case": desc, "expected": exp, "actual": im[tag], "found_by": "generated",
                                   "theorem_or_observable": "compile_%s vs the reference compilation" % tag})
        if parse_comp(m["fast"][0]) != exp:
            violations.append({"kind": "model-fast-vs-alt", "case": desc, "found_by": "none", "theorem_or_observable": "compile_fast_alt (model)"})
        inc_keys = [int(x) for x in m["inc"][0].split(",") if x]
        inc_exp = parse_comp(m["inc"][1])
        if parse_comp(m["inc"][2]) != inc_exp:
            violations.append({"kind": "model-incremental-vs-fresh", "case": desc, "ops": str(c["ops"]), "found_by": "none", "theorem_or_observable": "incremental model vs fresh compilation (model)"})
        if im["inc"] != inc_exp or im["inc_keys"] != inc_keys:
            violations.append({"kind": "incremental", "case": desc, "ops": [(o[0],) + ((o[1],) if len(o) > 1 else ()) + ((cond_text((o[1], o[2], o[3]), c["sig"]),) if o[0] == "A" else ()) for o in c["ops"]],
                               "expected": {"keys": inc_keys, "compilation": inc_exp}, "actual": {"keys": im["inc_keys"], "compilation": im["inc"]}, "found_by": "generated",
                               "theorem_or_observable": "incremental model after add/remove sequence vs fresh compilation of its conditionals"})
        for ci in range(c.get("ncompiles", 0)):
            mm = mres["%s~c%d" % (c["id"], ci)]
            exp_keys = [int(x) for x in mm["inc"][0].split(",") if x]
            exp_comp = parse_comp(mm["inc"][1])
            evals += 1
            strata["intermediate-compilations"] += 1
            if ci < len(im["inc_mid"]) and (im["inc_mid"][ci][0] != exp_comp or im["inc_mid"][ci][1] != exp_keys):
                violations.append({"kind": "incremental", "case": desc, "ops": [(o[0],) + ((o[1],) if len(o) > 1 else ()) + ((cond_text((o[1], o[2], o[3]), c["sig"]),) if o[0] == "A" else ()) for o in c["ops"]],
                                   "compile_point": ci, "expected": {"keys": exp_keys, "compilation": exp_comp}, "actual": {"keys": im["inc_mid"][ci][1], "compilation": im["inc_mid"][ci][0]},
                                   "found_by": "generated", "theorem_or_observable": "incremental model at an intermediate compilation vs fresh compilation of its current conditionals"})
                break
        strata["literal-only" if all(b[0] in "v!" and a[0] in "v!" for (_, b, a) in c["conds"]) else "compound"] += 1
        ci = 0
        below_fail = {}
        for (what, ri) in c["checks"]:
            ok, accs = m["chk%d" % ci]
            ci += 1
            rec = im["revisions"][ri]
            if what == "ret":
                rec["model_ok"] = (ok == "1", accs)
            else:
                if ok == "1":
                    below_fail[ri] = True
        for ri, rec in enumerate(im["revisions"]):
            evals += 1
            mode = {"gamma_plus_zero": rec["gpz"], "fixed_gamma_plus": rec["fixp"], "fixed_gamma_minus": rec["fixm"], "incremental_model": rec["use_model"]}
            strata["gpz=%s fixed=%s" % (rec["gpz"], bool(rec["fixp"] or rec["fixm"]))] += 1
            nontriv.add((c["id"], ri))
            res = rec["result"]
            if isinstance(res, str):
                violations.append({"kind": "revision-exception", "case": desc, "mode": mode, "actual": res, "found_by": "generated", "theorem_or_observable": "c_revision must not raise"})
            elif res is None:
                strata["returned-None"] += 1
                if rec.get("spec_exists") is True:
                    violations.append({"kind": "revision-none", "case": desc, "mode": mode, "actual": None, "found_by": "generated",
                                       "theorem_or_observable": "c_revision returned nothing although parameters exist (definition-level encoding is satisfiable)"})
            else:
                bad = None
                keys = [k for (k, _, _) in c["conds"]]
                if any(v < 0 for v in res.values()) or not rec.get("types_ok", True):
                    bad = "negative or non-integer parameter"
                elif any(res.get("gamma+_%d" % k) != v for k, v in rec["fixp"]) or any(res.get("gamma-_%d" % k) != v for k, v in rec["fixm"]):
                    bad = "fixed value not respected"
                elif rec["gpz"] and any(res.get("gamma+_%d" % k, 0) != 0 for k in keys if k not in dict(rec["fixp"])):
                    bad = "gamma+ not zero"
                elif "model_ok" in rec and not (rec["model_ok"][0] and set(rec["model_ok"][1]) <= {"1"}):
                    bad = "revised ranking does not accept every conditional (accepted: %s)" % rec["model_ok"][1]
                elif below_fail.get(ri):
                    bad = "gamma- vector is not Pareto-minimal"
                if bad:
                    violations.append({"kind": "revision-params", "why": bad, "why_class": bad.split(" (")[0], "fixed_values": bool(rec["fixp"] or rec["fixm"]), "case": desc, "mode": mode, "actual": res, "found_by": "generated",
                                       "theorem_or_observable": "returned parameters vs the definition: " + bad})
        if len(samples) < 2 and len(c["conds"]) >= 2:
            samples.append(dict(desc, revisions=[{k: r[k] for k in ("gpz", "fixp", "fixm", "result")} for r in im["revisions"]]))
    uniq, seen = [], set()
    for v in violations:
        k = (v["kind"], v.get("why"), v.get("which"), str(v.get("mode", {}).get("gamma_plus_zero")), bool(v.get("mode", {}).get("fixed_gamma_plus")), bool(v.get("mode", {}).get("fixed_gamma_minus")))
        if k not in seen:
            seen.add(k)
            uniq.append(v)
    return {"evaluations": evals, "distinct_nontrivial": len(nontriv),
            "rule": "random total priors over 1..%d atoms (ranks 0..0 up to 0..3), 1-3 revision conditionals (55%% literal, else compound incl. constants; unfalsifiable ones included) with arbitrary distinct indices; "
                    "2-6 add/remove operations on the incremental model (duplicate adds, removal of absent indices); 3 revision modes per case (gamma+ = 0 or free, fixed gamma+/gamma- maps, optional incremental model); "
                    "non-trivial = each revision call" % (4 if tier == "quick" else 5),
            "samples": samples, "strata": dict(strata), "traces_validated_against_impl": evals, "violations": uniq[:20]}


def replay(payload):
    return {"evaluations": 1, "distinct_nontrivial": 1, "rule": "replay", "samples": [str(payload)[:500]], "violations": []}


def matches_known(f, payload):
    return common.generic_match(f, payload)
