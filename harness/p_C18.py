"""C18 correspondence: PreOCF operations (formula_rank, conditional_acceptance, marginalize, conditionalisation,
ranks2tpo / tpo2ranks) on random total rankings (custom) and on System Z / c-representation objects, against the
Coq model of inference/preocf.py, for which the laws are theorems (props/C18.v)."""
import itertools
import random
from collections import Counter

import common
import ops
from common import cond_text, gen_formula, gen_lit, to_cl, to_prefix

ASSUMPTIONS = [
    "model = code is checked only on the generated inputs of this run",
    "world membership tests in the implementation go through z3 (oracle); the model evaluates formulas directly",
]


def bits(w):
    return "".join("1" if b else "0" for b in w)


def _worker(case):
    common.setup_impl_env()
    from inference.conditional import Conditional
    from inference.preocf import PreOCF, ranks2tpo, tpo2ranks

    sig = case["sig"]
    out = {"id": case["id"], "res": []}
    try:
        if case["kind"] == "custom":
            ocf = PreOCF.init_custom(dict(case["ranks"]), None, list(sig))
        else:
            bb = common.build_bb({"sig": sig, "base": case["base"]})
            ocf = PreOCF.init_system_z(bb) if case["kind"] == "system-z" else PreOCF.init_random_min_c_rep(bb)
            ocf.compute_all_ranks()
            out["ranks"] = dict(ocf.ranks)
            # a second object over the same base that is NOT ranked up front: the first `lazy_prefix` operations run on it
            lazy = PreOCF.init_system_z(bb) if case["kind"] == "system-z" else PreOCF.init_random_min_c_rep(bb)
    except Exception as e:  # noqa
        out["error"] = "EXC:%s:%s" % (type(e).__name__, str(e)[:100])
        return out
    common.NARY["on"] = bool(case.get("nary"))      # chains of one connective handed over as ONE n-ary node
    full = ocf
    for opi, op in enumerate(case["ops"]):
        try:
            k = op[0]
            ocf = lazy if (opi < case.get("lazy_prefix", 0) and case["kind"] != "custom") else full
            if k == "F":
                r = ocf.formula_rank(common.to_pysmt(op[1], sig))
            elif k == "A":
                r = bool(ocf.conditional_acceptance(Conditional(common.to_pysmt(op[1], sig), common.to_pysmt(op[2], sig), "q")))
            elif k == "M":
                m = ocf.marginalize([sig[i] for i in op[1]])
                r = {"ranks": dict(m.ranks), "sig": list(m.signature)}
            elif k == "C":
                a = ocf.conditionalize_existing_ranks(common.to_pysmt(op[1], sig))
                b = ocf.compute_conditionalization(common.to_pysmt(op[1], sig))
                r = {"existing": dict(a), "computed": dict(b)}
            elif k == "T":
                r = [sorted(l) for l in ranks2tpo(dict(ocf.ranks))]
            elif k == "U":
                vals = op[1]
                r = dict(tpo2ranks(ranks2tpo(dict(ocf.ranks)), lambda i: vals[i]))
            out["res"].append(r)
        except Exception as e:  # noqa
            out["res"].append("EXC:%s:%s" % (type(e).__name__, str(e)[:100]))
    common.NARY["on"] = False
    return out


def parse_table(s):
    d = {}
    if s:
        for item in s.split(","):
            w, r = item.split(":")
            d[w] = None if r == "-" else int(r)
    return d


def run(tier, seed, broken_proof=False):
    rng = random.Random(seed + 1818)
    count = 300 if tier == "quick" else 2000
    cases = []
    for i in range(count):
        n = rng.randrange(1, 6 if tier == "quick" else 7)
        sig = common.ATOM_NAMES[:n]
        kind = "custom" if rng.random() < 0.7 else rng.choice(["system-z", "system-z", "c-rep"])
        c = {"id": "r%d" % i, "n": n, "sig": sig, "kind": kind}
        if kind == "custom":
            hi = rng.choice([1, 2, 3, 6, 9, 300])
            worlds = [bits(w) for w in itertools.product([False, True], repeat=n)]
            if hi == 300:       # few large rank values, many ties (equal ranks that are not small integers)
                c["ranks"] = [(w, rng.choice([0, 300, 300, 700, 1000])) for w in worlds]
            else:
                c["ranks"] = [(w, rng.randrange(0, hi + 1)) for w in worlds]
        else:
            # a consistent base: reuse the operator generator, keep consistent ones
            for _ in range(30):
                b = ops.gen_ops_cases(rng, 1, False, max_atoms=n, max_conds=4, nq=0)[0]
                if b["n"] == n and b["base"] and common.run_model([b])[b["id"]]["part"] is not None:
                    c["base"] = b["base"]
                    break
            else:
                kind = c["kind"] = "custom"
                worlds = [bits(w) for w in itertools.product([False, True], repeat=n)]
                c["ranks"] = [(w, rng.randrange(0, 4)) for w in worlds]
        opsl = []
        if kind != "custom" and n >= 2:
            # lazily ranked objects in a PARTLY computed state: rank a world or two (a cube fixes every atom but at most one),
            # then ask acceptance verdicts and formula ranks; what is answered must not depend on which ranks exist already
            for _ in range(2):
                free = rng.randrange(n) if rng.random() < 0.5 else None
                lits = [common.V(j) if rng.random() < 0.5 else common.Not(common.V(j)) for j in range(n) if j != free]
                cube = lits[0]
                for l in lits[1:]:
                    cube = ("&", cube, l)
                opsl.append(("F", cube))
                for _ in range(3):
                    opsl.append(("A", gen_lit(rng, n), gen_lit(rng, n)))
                opsl.append(("A", gen_formula(rng, n, 1, 0.0), gen_formula(rng, n, 1, 0.0)))
            c["lazy_prefix"] = len(opsl)
        for _ in range(3):
            opsl.append(("F", gen_formula(rng, n, 2, 0.08)))
        for _ in range(3):
            opsl.append(("A", gen_formula(rng, n, 1, 0.05), gen_formula(rng, n, 1, 0.05)))
        if n >= 2:
            for _ in range(2):
                k = rng.randrange(1, n)
                opsl.append(("M", sorted(rng.sample(range(n), k))))
        opsl.append(("C", gen_formula(rng, n, 1, 0.05)))
        # chains of three or more disjuncts / conjuncts (as nested binary nodes, or - for a quarter of the cases - one n-ary node)
        if rng.random() < 0.25:
            c["nary"] = True
        for conn in ("|", "&"):
            ls = [gen_lit(rng, n) for _ in range(rng.randrange(3, 5))]
            ch = ls[0]
            for l in ls[1:]:
                ch = (conn, ch, l)
            opsl.append(("A", ch, gen_formula(rng, n, 1, 0.2)))
            opsl.append(("F", ch))
        # twins: one deep context around different cores, asked of the same object one after the other
        # (anything remembered per object between calls must be keyed by the whole formula)
        depth = rng.randrange(3, 8)
        ctx = [(rng.choice("&|"), gen_formula(rng, n, 0, 0.1), rng.random() < 0.5, rng.random() < 0.25) for _ in range(depth)]

        def plug(core):
            f = core
            for (o, side, left, neg) in ctx:
                f = (o, side, f) if left else (o, f, side)
                if neg:
                    f = common.Not(common.Not(f))
            return f

        cores = [gen_formula(rng, n, 1, 0.0) for _ in range(3)]
        for core in cores:
            opsl.append(("F", plug(core)))
        for core in cores[:2]:
            opsl.append(("C", plug(core)))
        opsl.append(("A", plug(cores[0]), plug(cores[1])))
        opsl.append(("A", plug(cores[1]), plug(cores[0])))
        opsl.append(("T",))
        c["ops"] = opsl
        cases.append(c)
    ires = {}
    for out in ops.pool().imap_unordered(_worker, cases, chunksize=2):
        ires[out["id"]] = out
    # tables for the model: custom -> given; objects -> the implementation's completed table (the object itself is C16/C17)
    lines = []
    usable = []
    for c in cases:
        im = ires[c["id"]]
        if "error" in im:
            continue
        tab = c["ranks"] if c["kind"] == "custom" else [(w, r) for w, r in im["ranks"].items()]
        c["table"] = tab
        # tpo2ranks numbering: strictly increasing random, or the layers' own ranks
        vals = sorted({r for _, r in tab if r is not None})
        if rng.random() < 0.5:
            fn = list(vals)
        else:
            fn, cur = [], 0
            for _ in vals:
                cur += rng.randrange(1, 4)
                fn.append(cur)
        c["ops"] = c["ops"] + [("U", fn)]
        usable.append(c)
    # second pass for the U op (needs the table): run only that op
    extra = {}
    for out in ops.pool().imap_unordered(_worker, [dict(c, ops=[c["ops"][-1]], kind="custom", ranks=c["table"]) for c in usable], chunksize=4):
        extra[out["id"]] = out["res"][0]
    for c in usable:
        lines.append("R %s %d" % (c["id"], c["n"]))
        for w, r in c["table"]:
            lines.append("W %s %s" % (w, "-" if r is None else r))
        for op in c["ops"]:
            if op[0] == "F":
                lines.append("OF " + to_prefix(op[1]))
            elif op[0] == "A":
                lines.append("OA %s ; %s" % (to_prefix(op[1]), to_prefix(op[2])))
            elif op[0] == "M":
                lines.append("OM " + " ".join(map(str, op[1])))
            elif op[0] == "C":
                lines.append("OC " + to_prefix(op[1]))
            elif op[0] == "T":
                lines.append("OT")
            elif op[0] == "U":
                lines.append("OU " + " ".join(map(str, op[1])))
        lines.append("E")
    mres = {}
    for line in common._run_bin("\n".join(lines) + "\n"):
        cid, i, res = line.split("|")
        mres.setdefault(cid, {})[int(i)] = res
    violations = []
    strata = Counter()
    evals = 0
    nontriv = set()
    samples = []
    for c in cases:
        im = ires[c["id"]]
        if "error" in im:
            if c["kind"] == "custom":
                violations.append({"kind": "construct", "case": c, "actual": im["error"], "found_by": "generated", "theorem_or_observable": "custom ranking object could not be built"})
            else:
                strata["object-construction-failed(" + c["kind"] + ")"] += 1
            continue
        strata["kind=" + c["kind"]] += 1
        res = im["res"] + [extra[c["id"]]]
        for i, op in enumerate(c["ops"]):
            got = res[i]
            m = mres[c["id"]][i]
            evals += 1
            strata["op=" + op[0]] += 1
            if op[0] == "F":
                exp = None if m == "-" else int(m)
                ok = got == exp
                if exp is None:
                    strata["frank-undefined"] += 1
            elif op[0] == "A":
                exp = m == "1"
                ok = got == exp
            elif op[0] == "M":
                exp = parse_table(m)
                ok = isinstance(got, dict) and got["ranks"] == exp and got["sig"] == [s for j, s in enumerate(c["sig"]) if j not in op[1]]
            elif op[0] == "C":
                exp = parse_table(m)
                ok = isinstance(got, dict) and got["existing"] == exp and got["computed"] == exp
            elif op[0] == "T":
                exp = [sorted(l.split(",")) for l in m.split(";")] if m else []
                ok = got == exp
            else:
                exp = parse_table(m)
                ok = got == exp
            if len(set(r for _, r in c["table"])) > 1:
                nontriv.add((c["id"], i))
            if not ok:
                violations.append({"kind": "ocf-op", "op": [op[0]] + [to_cl(x, c["sig"]) if isinstance(x, tuple) else x for x in op[1:]], "case": {k: c[k] for k in ("sig", "kind", "table")},
                                   "expected": exp, "actual": got, "found_by": "generated",
                                   "theorem_or_observable": "PreOCF operation %s vs its defining law" % {"F": "formula_rank", "A": "conditional_acceptance", "M": "marginalize", "C": "conditionalisation", "T": "ranks2tpo", "U": "tpo2ranks"}[op[0]]})
        if len(samples) < 2 and c["n"] == 3:
            samples.append({"sig": c["sig"], "ranks": c["table"], "ops": [[op[0]] + [to_cl(x, c["sig"]) if isinstance(x, tuple) else x for x in op[1:]] for op in c["ops"]], "results": res})
    return {"evaluations": evals, "distinct_nontrivial": len(nontriv),
            "rule": "random total rankings over 1..%d atoms (rank ranges 0..1 up to 0..9, asymmetric), 20%% System Z / c-representation objects; per ranking: 3 formula ranks, 3 acceptance tests, 2 marginalisations "
                    "to proper atom subsets, conditionalisation (existing and computed), twins (3 formula ranks, 2 conditionalisations, 2 acceptance tests on formulas sharing a context of 3..7 connectives around different cores), ranks2tpo, tpo2ranks with the layers' own ranks or a random strictly increasing numbering; non-trivial = operation on a non-constant ranking" % (5 if tier == "quick" else 6),
            "samples": samples, "strata": dict(strata), "traces_validated_against_impl": evals, "violations": violations[:20]}


def replay(payload):
    return {"evaluations": 1, "distinct_nontrivial": 1, "rule": "replay", "samples": [str(payload)[:400]], "violations": []}


def matches_known(f, payload):
    return common.generic_match(f, payload)
