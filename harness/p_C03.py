"""C03 correspondence: System W answers, rc2 and z3 back-ends (strict mode) vs the Coq model / definition."""
import common
import opsprop

ASSUMPTIONS = opsprop.ASSUMPTIONS
CONFIGS = [("system-w", "rc2"), ("system-w", "z3")]
MODES = [False]


def run(tier, seed, broken_proof=False):
    return opsprop.run_ops_property("C03", CONFIGS, MODES, tier, seed)


def replay(payload):
    return opsprop.replay_ops(payload, CONFIGS)


def matches_known(f, payload):
    return common.generic_match(f, payload)
