"""Operator correspondence: run InferenceManager.inference of the working tree and the extracted
Coq model on the same cases and compare every answer (used by C01-C04, C07, C08, C09, C11, C12)."""
import multiprocessing as mp
import os
import random

from common import atoms_of as common_atoms
from common import (ATOM_NAMES, And, F, Not, Or, T, V, case_key, gen_base_hierarchy, gen_base_random, gen_formula,
                    gen_lit, gen_query, impl_infer, impl_partition, make_case, run_model, setup_impl_env)

ALL_CONFIGS = [
    ("p-entailment", ""),
    ("system-z", ""),
    ("system-w", "rc2"),
    ("system-w", "z3"),
    ("lex_inf", "rc2"),
    ("lex_inf", "z3"),
]


def cfg_name(cfg):
    return cfg[0] + ("/" + cfg[1] if cfg[1] else "")


def _isolated(fn):
    """fn() in a forked child: a crash inside a solver library takes the child down, not the worker (result: 'CRASH:...')."""
    import pickle
    r, w = os.pipe()
    pid = os.fork()
    if pid == 0:
        code = 0
        try:
            os.close(r)
            data = pickle.dumps(fn())
            while data:
                n = os.write(w, data)
                data = data[n:]
        except BaseException:  # noqa
            code = 3
        finally:
            os._exit(code)
    os.close(w)
    chunks = []
    while True:
        b = os.read(r, 65536)
        if not b:
            break
        chunks.append(b)
    os.close(r)
    _, status = os.waitpid(pid, 0)
    if os.WIFSIGNALED(status):
        return "CRASH:signal %d" % os.WTERMSIG(status)
    if not chunks:
        return "CRASH:exit %d" % os.WEXITSTATUS(status)
    return pickle.loads(b"".join(chunks))


def _worker(args):
    case, configs, kw = args
    kw = dict(kw)
    isolate = kw.pop("isolate_engines", False)
    out = {}
    for cfg in configs:
        try:
            if isolate and cfg[1] not in ("", "rc2", "z3"):
                out[cfg_name(cfg)] = _isolated(lambda: impl_infer(case, cfg[0], cfg[1], **kw))
            else:
                out[cfg_name(cfg)] = impl_infer(case, cfg[0], cfg[1] or "rc2", **kw)
        except BaseException as e:  # noqa  (SystemExit etc. must not kill the pool)
            out[cfg_name(cfg)] = "EXC:%s:%s" % (type(e).__name__, str(e)[:120])
    return case["id"], out


_POOL = None


def pool(nproc=None):
    global _POOL
    if _POOL is None:
        setup_impl_env()
        nproc = nproc or int(os.environ.get("VERIF_NPROC", "14"))
        _POOL = mp.get_context("fork").Pool(nproc, maxtasksperchild=200)
    return _POOL


def run_impl(cases, configs, **kw):
    res = {}
    it = pool().imap_unordered(_worker, [(c, configs, kw) for c in cases])      # chunksize 1: the iterator supports a timeout
    for _ in range(len(cases)):
        # a worker that dies (e.g. a crash inside a solver library) loses its task: fail instead of waiting for ever
        cid, out = it.next(timeout=1800)
        res[cid] = out
    return res


# ------------------------------------------------------------------------------ corpus
def corpus_cases(weakly):
    """Hand-built cases that random generation rarely hits (design-phase witnesses)."""
    cs = []
    b, p, f, w, e = V(0), V(1), V(2), V(3), V(4)
    birds = [(1, f, b), (2, Not(f), p), (3, b, p), (4, w, b)]
    qs = [(1, f, p), (2, Not(f), p), (3, w, p), (4, b, p), (5, f, b), (6, e, p), (7, Not(f), And(p, b))]
    cs.append(make_case("corp-birds", 5, birds, qs, weakly))
    # lexicographic tie whose continuations differ (exists xi_v forall xi_f)
    lexb = [(1, f, b), (2, Not(f), p), (3, b, p), (4, w, b), (5, e, f)]
    X = And(And(b, f), And(Not(w), e))
    Y = And(Not(b), Not(f))
    Z = And(And(b, f), And(w, Not(e)))
    qs2 = [(1, Or(X, Y), And(p, Or(Or(X, Y), Z))), (2, e, And(p, f)), (3, w, And(p, b))]
    cs.append(make_case("corp-lextie", 5, lexb, qs2, weakly))
    # constants in base and queries
    x, y = V(0), V(1)
    cs.append(make_case("corp-const1", 2, [(1, x, T), (2, y, x)], [(1, x, T), (2, y, T), (3, F, x), (4, y, And(x, T))], weakly))
    a, bb_, c = V(0), V(1), V(2)
    cs.append(make_case("corp-const2", 3, [(1, Not(a), bb_), (2, a, a), (3, And(Not(a), Not(a)), Not(bb_)), (4, c, Not(And(c, bb_)))],
                        [(1, Not(And(a, a)), a), (2, c, bb_)], weakly))
    # three layers, two minimum-cardinality sets in the top layer continuing with the same middle-layer set (lex cache seed)
    n_, m_, k_, j_, a_, s_ = V(0), V(1), V(2), V(3), V(4), V(5)
    l3 = [(1, n_, T), (2, m_, T), (3, k_, T), (4, j_, T), (5, Not(n_), a_), (6, n_, s_), (7, a_, s_)]
    c3 = Or(And(And(a_, m_), And(k_, j_)), And(Not(a_), Not(j_)))
    a3 = And(And(s_, Or(Not(a_), Not(n_))), Or(a_, And(Not(m_), Not(k_))))
    cs.append(make_case("corp-lex3layers", 6, l3, [(1, c3, a3), (2, Not(c3), a3)], weakly))
    # upper-layer conditional listed first, incomparable lower-layer sets (System W ignore-list seed)
    p_, b2_, w_, t_, s2_, f_ = V(0), V(1), V(2), V(3), V(4), V(5)
    wb = [(1, Not(f_), p_), (2, b2_, p_), (3, w_, b2_), (4, t_, b2_), (5, s2_, b2_), (6, f_, b2_)]
    alt = Or(And(And(w_, t_), Not(s2_)), And(And(Not(w_), Not(t_)), s2_))
    cs.append(make_case("corp-wignore", 6, wb, [(1, w_, And(And(p_, f_), alt)), (2, s2_, And(And(p_, f_), alt)), (3, w_, And(p_, f_))], weakly))
    # one conditional with a three-clause consequent next to single-clause ones (lex cost-vs-cardinality seed)
    x_, y_, z_, e_, f2_, g_, a2_, p2_, q_ = [V(i) for i in range(9)]
    mcb = [(1, And(And(x_, y_), z_), a2_), (2, e_, a2_), (3, f2_, a2_), (4, g_, a2_), (5, And(And(Not(x_), Not(y_)), Not(z_)), p2_), (6, Not(e_), q_), (7, Not(f2_), q_)]
    cs.append(make_case("corp-multiclause", 9, mcb, [(1, Or(x_, g_), And(a2_, Or(p2_, q_))), (2, g_, And(a2_, q_)), (3, x_, And(a2_, p2_))], weakly))
    # a multi-clause conditional falsified alone costs more clauses than together with a second one (unsorted superset filter seed)
    cs.append(make_case("corp-costinv", 6, [(1, And(And(V(1), V(2)), V(3)), V(0)), (2, V(4), V(0))],
                        [(1, V(5), And(And(And(V(0), Not(And(And(V(1), V(2)), V(3)))), Or(And(And(Not(V(1)), Not(V(2))), Not(V(3))), Not(V(4)))), Or(V(5), Not(V(4))))),
                         (2, V(4), V(0))], weakly))
    # the same conditional twice: the lexicographic count sees two falsified conditionals (conditionals-compared-by-text seed)
    alt2 = Or(And(V(0), Not(V(1))), And(Not(V(0)), V(1)))
    cs.append(make_case("corp-dupcount", 3, [(1, V(0), T), (2, V(0), T), (3, V(1), T)], [(1, V(0), alt2), (2, V(1), alt2), (3, V(0), T)], weakly))
    cs.append(make_case("corp-dupcount2", 4, [(1, V(1), V(0)), (2, V(2), V(1)), (3, V(2), V(1)), (4, V(3), V(1)), (5, Not(V(2)), V(0))],
                        [(1, V(3), And(V(1), Or(And(V(2), Not(V(3))), And(Not(V(2)), V(3))))), (2, V(2), And(V(1), Or(And(V(2), Not(V(3))), And(Not(V(2)), V(3)))))], weakly))
    # query histories on one manager: an earlier query makes the optimiser allocate helper ids, a later one introduces a variable
    # the pool has not seen (an atom no conditional mentions) - pool-id recycling / second-pool seeds
    P1, P2, P3, P4, C_ = V(0), V(1), V(2), V(3), V(4)
    cs.append(make_case("corp-poolhist", 5, [(1, P1, T), (2, P2, T), (3, P3, T), (4, P4, T)],
                        [(1, C_, Not(P1)), (2, Or(C_, P4), Or(Not(P1), And(And(Not(P2), Not(P3)), Not(P4)))), (3, C_, Not(P2))], weakly))
    a6, b6, c6, d6, g6, e6 = [V(i) for i in range(6)]
    w1_ = And(And(Not(b6), Not(c6)), And(Not(d6), g6))
    w2_ = And(And(Not(b6), c6), And(d6, Not(g6)))
    w3_ = And(And(b6, c6), And(Not(d6), Not(g6)))
    cs.append(make_case("corp-poolhist2", 6, [(1, And(And(b6, c6), d6), a6), (2, g6, a6)],
                        [(1, b6, a6), (2, Not(b6), And(And(e6, a6), Or(Or(w1_, w2_), w3_))), (3, g6, And(a6, e6))], weakly))
    # redundant specialisation whose impact may be 0 (c-inference cross-pruning seed)
    cs.append(make_case("corp-redundant", 3, [(1, V(1), V(0)), (2, V(1), And(V(0), V(2)))], [(1, Not(V(2)), And(V(0), Not(V(1)))), (2, V(2), And(V(0), Not(V(1)))), (3, V(1), V(0))], weakly))
    # unfalsifiable conditional
    cs.append(make_case("corp-unfals", 2, [(1, y, x), (2, x, x)], [(1, y, x), (2, Not(y), x), (3, x, y)], weakly))
    # lexicographic ties on an upper layer with several minimum-cardinality sets on one side, only one of which wins below
    # (decided by "some verifying set beats every falsifying set": first-set-only and accumulated-clauses seeds)
    p5, b5, f5, x5, y5 = V(0), V(1), V(2), V(3), V(4)
    lm = [(1, Not(f5), p5), (2, b5, p5), (3, f5, b5), (4, x5, T), (5, y5, T)]
    bf, nbf = And(b5, f5), And(Not(b5), Not(f5))
    lmq = [(1, Or(bf, x5), And(p5, Or(And(And(bf, Not(x5)), Not(y5)), nbf))),
           (2, Or(nbf, x5), And(p5, Or(And(And(nbf, Not(x5)), Not(y5)), bf)))]
    cs.append(make_case("corp-lexmulti", 5, lm, lmq, weakly))
    p6, q6, r6, b6, f6, w6 = V(0), V(1), V(2), V(3), V(4), V(5)
    lm2 = [(1, f6, b6), (2, w6, b6), (3, Not(f6), p6), (4, b6, p6), (5, Not(f6), q6), (6, b6, q6), (7, Not(f6), r6), (8, b6, r6)]
    lm2q = []
    for (X6, Y6) in ((q6, r6), (r6, q6)):
        A6 = And(f6, Or(Or(And(And(p6, Not(q6)), Not(r6)), And(And(And(X6, Not(p6)), Not(Y6)), Not(w6))), And(And(Y6, Not(p6)), Not(X6))))
        k0 = len(lm2q)
        lm2q += [(k0 + 1, p6, A6), (k0 + 2, Not(X6), A6), (k0 + 3, p6, And(A6, Not(X6)))]
    cs.append(make_case("corp-lexmulti2", 6, lm2, lm2q, weakly))
    if weakly:
        cs.append(make_case("corp-w-onlyinf", 3, [(1, F, a)], [(1, bb_, c), (2, a, T), (3, Not(a), T), (4, c, a)], True))
        cs.append(make_case("corp-w-z3hard", 3, [(1, bb_, Not(bb_)), (2, Not(Or(Not(bb_), c)), a)],
                            [(1, Not(Or(And(Not(a), Not(bb_)), a)), c), (2, bb_, T), (3, a, c)], True))
        cs.append(make_case("corp-w-mixed", 4, [(1, f, b), (2, Not(f), p), (3, b, p), (4, F, w)],
                            [(1, f, p), (2, Not(w), T), (3, b, And(p, w)), (4, Not(f), Or(p, w))], True))
    for c in cs:
        c["id"] += "-w" if weakly else "-s"
    return cs


# ------------------------------------------------------------------------------ generators
def gen_ops_cases(rng, count, weakly, max_atoms=5, max_conds=7, nq=6, prefix="g", partial_sig=False):
    cases = []
    for i in range(count):
        n = rng.randrange(1, max_atoms + 1)
        m = rng.randrange(1, max_conds + 1)
        r = rng.random()
        mc = False
        linked = None
        if r < 0.12 and n >= 5:
            base = gen_base_multiclause(rng, n, m)
            mc = True
        elif r > 0.9 and n >= 4:
            base, linked = gen_base_linked(rng, n)
        elif r < 0.24 and n >= 4:
            base = gen_base_layered(rng, n, m)
        elif 0.45 <= r < 0.53 and n >= 3:
            base = gen_base_defaults(rng, n)
        elif r < 0.45 and n >= 2:
            base = gen_base_hierarchy(rng, n, m)
        elif r < 0.8:
            base = gen_base_random(rng, n, m, depth=1, const_p=0.04)
        else:
            base = gen_base_random(rng, n, m, depth=2, const_p=0.08)
        if weakly and rng.random() < 0.6:
            # push conditionals into the infinity layer: (Bottom|phi), (x|!x), contradictory pairs
            k = len(base)
            for _ in range(rng.randrange(1, 3)):
                k += 1
                t = rng.random()
                if t < 0.4:
                    base.append((k, F, gen_formula(rng, n, 1, 0.0)))
                elif t < 0.7:
                    l = gen_lit(rng, n)
                    base.append((k, l, Not(l)))
                else:
                    l = gen_lit(rng, n)
                    g = gen_lit(rng, n)
                    base.append((k, g, l))
                    k += 1
                    base.append((k, Not(g), l))
        if rng.random() < 0.1 and base:
            base.append((len(base) + 1, base[0][1], base[0][2]))  # duplicate conditional
        qs = []
        for j in range(nq):
            b, a = gen_query(rng, n, extra_atom=True)
            qs.append((j + 1, b, a))
        if linked and nq:
            for (b_, a_) in linked:
                qs.append((len(qs) + 1, b_, a_))
        if mc and nq:
            # queries over the multi-clause template: (x ; y | a, (p ; q)) and variants
            ats = sorted({x for (_, b_, a_) in base for x in (common_atoms(b_) | common_atoms(a_))})
            for _ in range(3):
                xs = rng.sample(ats, min(len(ats), 4))
                qs.append((len(qs) + 1, Or(V(xs[0]), V(xs[-1])), And(V(xs[1 % len(xs)]), Or(V(xs[2 % len(xs)]), V(xs[3 % len(xs)])))))
        if mc and nq:
            # cost inversion: falsifying the multi-clause conditional c1 alone violates more clauses than falsifying it in one
            # clause together with c2; q (fresh) is forced wherever c2 is not falsified
            def conj_lits(f):
                if f[0] == "&":
                    return conj_lits(f[1]) + conj_lits(f[2])
                return [f]
            multi = [(k_, b_, a_) for (k_, b_, a_) in base if len(conj_lits(b_)) >= 2]
            single = [(k_, b_, a_) for (k_, b_, a_) in base if len(conj_lits(b_)) == 1]
            if multi and single:
                k1, b1, a1 = rng.choice(multi)
                same = [c_ for c_ in single if c_[2] == a1] or single
                k2, b2, a2 = rng.choice(same)
                allneg = None
                for l in conj_lits(b1):
                    allneg = Not(l) if allneg is None else And(allneg, Not(l))
                f2 = And(a2, Not(b2))
                qa = V(n)
                A = And(And(And(a1, Not(b1)), Or(allneg, f2)), Or(qa, f2))
                qs.append((len(qs) + 1, qa, A))
                qs.append((len(qs) + 1, Not(qa), A))
        # queries built from base formulas (direct inference, specificity)
        if base:
            k0 = rng.choice(base)
            qs.append((len(qs) + 1, k0[1], k0[2]))
            k1 = rng.choice(base)
            qs.append((len(qs) + 1, k0[1], And(k0[2], k1[2])))
        # a family of long left-nested conjunction queries that differ only deep inside (shared suffix of >= 5 literals
        # over distinct atoms, repeated to reach the depth, so that the antecedents stay satisfiable)
        if rng.random() < 0.35 and base:
            # suffix over atoms the base does not mention (irrelevant, keeps the antecedent satisfiable), repeated to depth >= 5;
            # heads: the antecedent of a base conditional, its negation, a strengthening - same consequent
            fresh_atoms = [n, n + 1, n + 2]
            lits = [V(x) if rng.random() < 0.5 else Not(V(x)) for x in fresh_atoms]
            suffix = (lits * 3)[: rng.randrange(5, 7)]
            kk, bb, aa = rng.choice(base)
            heads = [aa, Not(aa), And(aa, gen_lit(rng, n))]
            rng.shuffle(heads)
            for h in heads:
                cur = h
                for l in suffix:
                    cur = And(cur, l)
                qs.append((len(qs) + 1, bb, cur))
        # deep twins inside the BASE: two conditionals (and queries) whose antecedents share a context of 4..7 connectives around
        # different cores - anything keyed by a printed formula must tell them apart
        if base and rng.random() < 0.25:
            depth = rng.randrange(5, 9)
            if n >= 2 and rng.random() < 0.7:
                # transparent context  l1 & (l2 | (l1 & (l2 | ... core)))  ==  l1 & (l2 | core): the core matters
                a1, a2 = rng.sample(range(n), 2)
                l1 = V(a1) if rng.random() < 0.7 else Not(V(a1))
                l2 = V(a2) if rng.random() < 0.7 else Not(V(a2))
                ctx = [("|" if i % 2 == 0 else "&", l2 if i % 2 == 0 else l1, rng.random() < 0.7) for i in range(depth)]
            else:
                ctx = [(rng.choice("&|"), gen_lit(rng, n), rng.random() < 0.5) for _ in range(depth)]

            def plug(core):
                f = core
                for (o, side, left) in ctx:
                    f = (o, side, f) if left else (o, f, side)
                return f
            cores = [gen_lit(rng, n), gen_lit(rng, n), gen_formula(rng, n, 1, 0.0)]
            idx = rng.sample(range(len(base)), min(2, len(base)))
            how = rng.choice(["same", "opposite", "own"])      # consequent of the second twin relative to the first
            b0 = base[idx[0]][1]
            for t, j in enumerate(idx):
                kk, bb, aa = base[j]
                nb = bb if (how == "own" or t == 0) else (b0 if how == "same" else (b0[1] if b0[0] == "!" else Not(b0)))
                base[j] = (kk, nb, plug(cores[t]))
            if len(idx) > 1:
                qs.append((len(qs) + 1, base[idx[1]][1], base[idx[1]][2]))      # direct inference of the second twin
            kk, bb, aa = base[idx[0]]
            for core in cores:
                qs.append((len(qs) + 1, bb, plug(core)))
                qs.append((len(qs) + 1, Not(bb), plug(core)))
        # a redundant specialisation (B|A,C) of a conditional of the base, and queries about what falsifies a conditional
        if base and rng.random() < 0.3:
            kk, bb, aa = rng.choice(base)
            extra = gen_lit(rng, n)
            base.append((max(k for k, _, _ in base) + 1, bb, And(aa, extra)))
            qs.append((len(qs) + 1, Not(extra), And(aa, Not(bb))))
            qs.append((len(qs) + 1, extra, And(aa, Not(bb))))
        if base and rng.random() < 0.4:
            kk, bb, aa = rng.choice(base)
            qs.append((len(qs) + 1, gen_lit(rng, n), And(aa, Not(bb))))
        # a third of the bases get arbitrary distinct keys (sparse, 0-based, permuted): answers must not depend on them
        if base and rng.random() < 0.33:
            ks = rng.sample(range(0, 3 * len(base) + 4), len(base))
            base = [(ks[j], b, a) for j, (_, b, a) in enumerate(base)]
        cs_ = make_case("%s%d" % (prefix, i), n, base, qs, weakly)
        r_ = rng.random()
        if partial_sig and r_ < 0.08 and cs_["n"] >= 2:
            keep = rng.sample(range(cs_["n"]), rng.randrange(1, cs_["n"]))      # a declared signature that leaves atoms out
            cs_["declared"] = [cs_["sig"][j] for j in sorted(keep)]
        elif r_ < 0.2:
            cs_["nary"] = True                                                   # chains as n-ary nodes
        cases.append(cs_)
    return cases



def gen_base_linked(rng, n):
    """Groups of two atoms with a rule inside each group, and rules that link a group to the previous one only through their
    antecedent (y, (!a ; b)): a conditional can be unblocked by the removal of one it shares no atom with, through the link.
    Returns the base and queries about the links."""
    atoms = list(range(n))
    rng.shuffle(atoms)
    groups = [atoms[i:i + 2] for i in range(0, n - 1, 2)][:3]
    conds, qs = [], []
    lit = lambda x: V(x) if rng.random() < 0.6 else Not(V(x))
    for gi, (u, v) in enumerate(groups):
        inner = (lit(v), V(u))
        if gi == 0 or rng.random() < 0.5:
            conds.append(inner)
        else:
            qs.append(inner)
        if gi > 0:
            pu, pv = groups[gi - 1]
            bridge = Or(Not(V(pu)), V(pv)) if rng.random() < 0.6 else And(V(pu), V(pv))
            link = (Not(inner[0]) if rng.random() < 0.6 else lit(v), And(V(u), bridge))
            if rng.random() < 0.6:
                conds.append(link)
            else:
                qs.append(link)
            qs.append((link[0], V(u)))
            qs.append((Not(link[0]), V(u)))
    if rng.random() < 0.4:
        conds.append((lit(rng.choice(atoms)), T))
    rng.shuffle(conds)
    return [(i + 1, b, a) for i, (b, a) in enumerate(conds)], qs


def gen_base_layered(rng, n, m):
    """Bases with >= 3 tolerance layers by construction: a chain of sub-classes c0 <- c1 <- c2 (<- c3) whose members
    flip a property, plus several defaults (lit|Top) and (lit|c0) in the lowest layer (many incomparable correction sets)."""
    atoms = list(range(n))
    rng.shuffle(atoms)
    depth = min(rng.randrange(3, 5), max(n - 1, 1))
    chain = atoms[:depth]
    rest = atoms[depth:] or [atoms[0]]
    x = rest[0]
    conds = []
    pol = rng.random() < 0.5
    for i in range(depth):
        lit = V(x) if (pol ^ (i % 2 == 1)) else Not(V(x))
        conds.append((lit, V(chain[i])))
        if i > 0:
            conds.append((V(chain[i - 1]), V(chain[i])))
    for y in rest[1:]:
        l = V(y) if rng.random() < 0.5 else Not(V(y))
        conds.append((l, T if rng.random() < 0.6 else V(chain[0])))
    if rng.random() < 0.5:
        conds.append((V(chain[0]) if rng.random() < 0.5 else Not(V(chain[0])), T))
    rng.shuffle(conds)
    return [(i + 1, b, a) for i, (b, a) in enumerate(conds)]


def gen_base_multiclause(rng, n, m):
    """Conditionals whose consequents are conjunctions of 2-3 literals (several soft clauses each) next to single-literal
    ones with the same antecedent, and defeaters for them under other antecedents: correction sets whose number of
    conditionals and number of violated clauses order differently."""
    atoms = list(range(n))
    rng.shuffle(atoms)
    a, p, q = atoms[0], atoms[1 % n], atoms[2 % n]
    props = atoms[3:] or [atoms[0]]
    conds = []
    k = min(len(props), rng.randrange(2, 4))
    big = props[:k]
    cj = V(big[0])
    ncj = Not(V(big[0]))
    for x in big[1:]:
        cj = And(cj, V(x))
        ncj = And(ncj, Not(V(x)))
    conds.append((cj, V(a)))
    conds.append((ncj, V(p)))
    for x in props[k:k + 3]:
        conds.append((V(x), V(a)))
        if rng.random() < 0.8:
            conds.append((Not(V(x)), V(q)))
    while len(conds) < m:
        conds.append((gen_lit(rng, n), gen_lit(rng, n)))
    rng.shuffle(conds)
    return [(i + 1, b, c) for i, (b, c) in enumerate(conds)]


def tie_queries(rng, case, part, count=3):
    """Queries built to tie in an upper layer: the antecedent forces the falsification of an upper-layer conditional and
    offers two alternative falsification patterns of lower-layer conditionals; the consequent picks one of them."""
    byk = {k: (b, a) for (k, b, a) in case["base"]}
    fin = [l for l in (part[:-1] if case["weakly"] else part)]
    if len(fin) < 2:
        return world_queries(rng, case, part, 2) + mixed_size_queries(rng, case, part, 2)
    out = []

    def falf(k):
        b, a = byk[k]
        return And(a, Not(b))

    def verf(k):
        b, a = byk[k]
        return And(a, b)

    def conj(fs):
        cur = fs[0]
        for f in fs[1:]:
            cur = And(cur, f)
        return cur
    for _ in range(count):
        j = rng.randrange(1, len(fin))
        up = rng.choice(fin[j])
        lower = [k for l in fin[:j] for k in l]
        if not lower:
            continue
        s1 = rng.sample(lower, min(len(lower), rng.randrange(1, 3)))
        s2 = rng.sample(lower, min(len(lower), rng.randrange(1, 3)))
        others = [k for k in lower if k not in s1 + s2]
        X = conj([falf(k) for k in s1] + [verf(k) if rng.random() < 0.5 else Not(falf(k)) for k in others[:2]])
        Y = conj([falf(k) for k in s2] + [Not(falf(k)) for k in s1 if k not in s2][:1])
        A = And(falf(up), Or(X, Y)) if rng.random() < 0.7 else And(byk[up][1], Or(X, Y))
        out.append((X if rng.random() < 0.7 else Not(Y), A))
    return out + world_queries(rng, case, part, count + 3)


def gen_base_defaults(rng, n):
    """Independent defaults in one layer: (x_i|Top) / (x_i|a) over distinct atoms, optionally with exceptions below a
    second layer.  Layers in which several conditionals can be falsified independently have inclusion-minimal
    falsification sets of different cardinalities and overlapping sets of least cardinality."""
    k = min(n, rng.randrange(3, 6))
    shared = V(n - 1) if (n > k and rng.random() < 0.5) else T
    base = []
    for i in range(k):
        x = V(i) if rng.random() < 0.8 else Not(V(i))
        base.append((len(base) + 1, x, shared))
    if rng.random() < 0.5 and n > k:
        e = V(k) if shared is T else And(shared, V(k)) if k < n - 1 else None
        if e is not None:
            for i in rng.sample(range(k), rng.randrange(1, min(3, k) + 1)):
                b = base[i][1]
                base.append((len(base) + 1, Not(b), e))
    return base


def mixed_size_queries(rng, case, part, count=3):
    """Antecedents that offer falsification sets of one layer which are pairwise incomparable and of DIFFERENT sizes
    (e.g. {c1} and {c2,c3}), or several sets of the least size that overlap ({c1,c2},{c1,c3},{c2,c3}); the consequent
    selects some of the worlds.  Decided by enumerations that must return every inclusion-minimal set, not only the
    smallest ones, and every smallest one, not only pairwise disjoint ones."""
    import itertools as _it
    from common import ev
    n = case["n"]
    if n > 6 or not case["base"]:
        return []
    byk = {k: (b, a) for (k, b, a) in case["base"]}
    fin = part[:-1] if case["weakly"] else part
    inf = set(part[-1]) if case["weakly"] else set()
    big = [l for l in fin if len(l) >= 3]
    if not big:
        return []
    out = []
    for _ in range(count * 3):
        if len(out) >= count:
            break
        layer = rng.choice(big)
        bypat = {}
        for w in _it.product([False, True], repeat=n):
            fs = frozenset(k for k, (b, a) in byk.items() if ev(a, w) and not ev(b, w))
            if fs & inf:
                continue
            bypat.setdefault(frozenset(fs & set(layer)), []).append(w)
        pats = [p for p in bypat if p]
        rng.shuffle(pats)
        chosen = []
        want_overlap = rng.random() < 0.4
        for p in pats:
            if all(not (p <= q or q <= p) for q in chosen):
                if want_overlap and chosen and (len(p) != len(chosen[0]) or not any(p & q for q in chosen)):
                    continue
                chosen.append(p)
            if len(chosen) >= rng.randrange(2, 5):
                break
        if len(chosen) < 2 or (not want_overlap and len({len(p) for p in chosen}) < 2):
            continue
        ws = [rng.choice(bypat[p]) for p in chosen]
        extra = [rng.choice(bypat[p]) for p in chosen if len(bypat[p]) > 1 and rng.random() < 0.5]
        allw = list(dict.fromkeys(ws + extra))
        nb = rng.randrange(1, len(allw))
        rng.shuffle(allw)
        def disj(xs):
            cur = minterm(xs[0])
            for w in xs[1:]:
                cur = Or(cur, minterm(w))
            return cur
        out.append((disj(allw[:nb]), disj(allw)))
    return out


def minterm(w):
    cur = V(0) if w[0] else Not(V(0))
    for i in range(1, len(w)):
        cur = And(cur, V(i) if w[i] else Not(V(i)))
    return cur


def world_queries(rng, case, part, count=3):
    """Queries read off the worlds: two to six worlds that falsify the same non-empty set of conditionals in the upper
    layers (and whatever they falsify below); the antecedent is the disjunction of their minterms, the consequent the
    disjunction of some of them. Decided deep in the recursion of System W / lexicographic inference, with conditionals of upper
    layers fixed as falsified, whatever the order in which the base lists its conditionals."""
    import itertools as _it
    n = case["n"]
    if n > 6 or not case["base"]:
        return []
    byk = {k: (b, a) for (k, b, a) in case["base"]}
    fin = part[:-1] if case["weakly"] else part
    inf = part[-1] if case["weakly"] else []
    if len(fin) < 1:
        return []
    from common import ev
    prof = {}
    for w in _it.product([False, True], repeat=n):
        fs = {k for k, (b, a) in byk.items() if ev(a, w) and not ev(b, w)}
        if fs & set(inf):
            continue
        prof[w] = fs
    def disj(ws):
        cur = minterm(ws[0])
        for w in ws[1:]:
            cur = Or(cur, minterm(w))
        return cur

    out = []
    for _ in range(count * 4):
        if len(out) >= count:
            break
        if len(fin) < 2 or rng.random() < 0.25:
            # exceptional antecedent: only worlds that falsify something (nested and incomparable sets within one layer)
            g = [w for w, fs in prof.items() if fs]
            if len(g) < 2:
                continue
            sel = rng.sample(g, rng.randrange(2, min(6, len(g)) + 1))
            nb = rng.randrange(1, len(sel))
            out.append((disj(sel[:nb]), disj(sel)))
            continue
        j = rng.randrange(1, len(fin))
        upper = {k for l in fin[j:] for k in l}
        groups = {}
        bycount = rng.random() < 0.4        # lexicographic flavour: the same NUMBER of falsified conditionals per upper layer, any sets
        for w, fs in prof.items():
            if fs & upper:
                key = tuple(len(fs & set(l)) for l in fin[j:]) if bycount else frozenset(fs & upper)
                groups.setdefault(key, []).append(w)
        cands = [g for g in groups.values() if len(g) >= 2 and (not bycount or len({frozenset(prof[w] & upper) for w in g}) >= 2)]
        if not cands:
            continue
        g = rng.choice(cands)
        sel = rng.sample(g, rng.randrange(2, min(6, len(g)) + 1))
        nb = rng.randrange(1, len(sel))
        out.append((disj(sel[:nb]), disj(sel)))
    return out


def tradeoff_queries(rng, case, count=4):
    """(minterm(w1) | minterm(w1) ; minterm(w2)) for worlds whose sets of falsified conditionals are incomparable (neither
    contains the other): asks whether one sum of impacts is always below another one - decided by the whole solution space
    of the constraint system of c-inference, not by its smallest solutions."""
    import itertools as _it
    from common import ev
    n = case["n"]
    if n > 6 or len(case["base"]) < 2:
        return []
    prof = {}
    for w in _it.product([False, True], repeat=n):
        fs = frozenset(k for (k, b, a) in case["base"] if ev(a, w) and not ev(b, w))
        prof.setdefault(fs, w)
    sets = [fs for fs in prof if fs]
    pairs = [(s1, s2) for s1 in sets for s2 in sets if not s1 <= s2 and not s2 <= s1]
    rng.shuffle(pairs)
    pairs.sort(key=lambda p: -(len(p[1]) - len(p[0])))      # few conditionals against many first
    out = []
    for (s1, s2) in pairs[:count]:
        w1, w2 = prof[s1], prof[s2]
        out.append((minterm(w1), Or(minterm(w1), minterm(w2))))
    return out


def strata(case, mres):
    """Stratum labels of a case, from the model's own output."""
    s = set()
    part = mres["part"]
    if part is None:
        s.add("inconsistent")
        return s
    fin = part[:-1] if case["weakly"] else part
    s.add("layers=%d" % min(len(fin), 4))
    if case["weakly"]:
        s.add("inf-nonempty" if part[-1] else "inf-empty")
        if not fin:
            s.add("no-finite-layer")
    for row in mres["model"]:
        vals = tuple(row[k] for k in ("p-entailment", "system-z", "system-w", "lex_inf"))
        if len(set(vals)) > 1:
            s.add("operators-differ")
        if vals[2] != vals[3]:
            s.add("w-vs-lex-differ")
        if vals[1] != vals[2]:
            s.add("z-vs-w-differ")
    return s


SYS_OF_CFG = {"p-entailment": "p-entailment", "system-z": "system-z", "system-w": "system-w", "lex_inf": "lex_inf"}


def diff_ops(cases, mres, ires, configs):
    """Compare implementation answers with the model's; each disagreement also carries the spec answer."""
    dis = []
    for c in cases:
        m = mres[c["id"]]
        im = ires[c["id"]]
        for cfg in configs:
            name = cfg_name(cfg)
            got = im[name]
            exp = [row[cfg[0]] for row in m["model"]]
            spec = [row[cfg[0]] for row in m["spec"]]
            if exp and exp[0] == "REFUSE" or (not exp and m["part"] is None):
                # refusal = an error instead of answers, whatever the class of the error (the property does not name one)
                if isinstance(got, list):
                    dis.append({"case": c, "config": name, "query": None, "impl": got, "model": "REFUSE", "spec": "REFUSE"})
                continue
            if not isinstance(got, list):
                dis.append({"case": c, "config": name, "query": None, "impl": got, "model": exp, "spec": spec})
                continue
            for qi, (g, e_, s_) in enumerate(zip(got, exp, spec)):
                if g != e_:
                    dis.append({"case": c, "config": name, "query": qi, "impl": g, "model": e_, "spec": s_})
    return dis
