"""C10 correspondence: parse_formula / parse_belief_base / parse_queries of the working tree against the Coq model
(lexer + precedence-climbing formula parser proved equivalent to the stratified grammar + file-level parser) on
grammar-directed well-formed texts with layout variations and on malformed variants: accept/reject must agree and
on accept the AST, signature, name, keys and text representations must agree; every text representation must
re-parse to the same conditional."""
import random
from collections import Counter

import common
import ops
from common import And, F, Not, Or, T, V

ASSUMPTIONS = [
    "ANTLR's generated lexer/parser (ATN interpreter) is not modelled: the model is a lexer and recursive-descent parser for the same grammar, compared per input",
    "pysmt collapses double negation when building formulas; the same normalisation is applied to the model's AST before comparison",
    "model = code only on the generated inputs of this run",
]
NAMES = ["a", "b", "c", "d", "e", "f", "x1", "Bird", "p_q", "w-2", "Top", "Bottom", "signatures", "cond", "T0"]


# ------------------------------------------------------------------ printing with layout variation
def prec(f):
    return {"|": 1, "&": 2, "!": 3}.get(f[0], 4)


def show(rng, f, names, ctx=0, fancy=True):
    """Minimal-parenthesis printer with optional redundant parentheses / blanks / comments."""
    def ws():
        if not fancy:
            return ""
        r = rng.random()
        if r < 0.6:
            return ""
        if r < 0.85:
            return " " * rng.randrange(1, 3)
        if r < 0.93:
            return "\t"
        return "/* c%d */" % rng.randrange(9)
    t = f[0]
    if t == "T":
        s = "Top"
    elif t == "F":
        s = "Bottom"
    elif t == "v":
        s = names[f[1]]
    elif t == "!":
        s = "!" + ws() + show(rng, f[1], names, 3, fancy)
    else:
        op = "," if t == "&" else ";"
        p = prec(f)
        # left associative: the right operand needs parentheses at equal precedence
        s = show(rng, f[1], names, p, fancy) + ws() + op + ws() + show(rng, f[2], names, p + 1, fancy)
    if prec(f) < ctx or (fancy and rng.random() < 0.08):
        s = "(" + ws() + s + ws() + ")"
    return s


def gen_form(rng, n, depth):
    r = rng.random()
    if depth == 0 or r < 0.3:
        if rng.random() < 0.1:
            return T if rng.random() < 0.5 else F
        return V(rng.randrange(n))
    if r < 0.45:
        return Not(gen_form(rng, n, depth - 1))
    a, b = gen_form(rng, n, depth - 1), gen_form(rng, n, depth - 1)
    return And(a, b) if r < 0.75 else Or(a, b)


def gen_file(rng, fancy=True):
    n = rng.randrange(1, 6)
    names = rng.sample([x for x in NAMES if x not in ("Top", "Bottom")], n)
    nl = lambda: rng.choice(["\n", "\n", "\r\n", "\n\n", "\n  \n", "\r", " // note\n"]) if fancy else "\n"
    sp = lambda: rng.choice(["", " ", "  ", "\t"]) if fancy else ""
    m = rng.randrange(0, 5)
    conds = []
    for _ in range(m):
        conds.append("(" + sp() + show(rng, gen_form(rng, n, rng.randrange(0, 4)), names, 0, fancy) + sp() + "|" + sp() + show(rng, gen_form(rng, n, rng.randrange(0, 4)), names, 0, fancy) + sp() + ")")
    body = ""
    for i, c in enumerate(conds):
        body += sp() + c
        if i < len(conds) - 1:
            body += "," + (nl() if rng.random() < 0.8 else sp())
        else:
            body += nl() if rng.random() < 0.8 else ""
    lead = nl() if fancy and rng.random() < 0.3 else ""
    s = lead + "signature" + sp() + nl() + sp() + ("," + sp()).join(names) + sp() + nl() + (nl() if rng.random() < 0.5 else "")
    s += "conditionals" + sp() + nl() + "kb%d" % rng.randrange(99) + sp() + (nl() if rng.random() < 0.5 else "") + "{" + (nl() if rng.random() < 0.8 else "") + body + "}" + (nl() if rng.random() < 0.7 else "")
    if fancy and rng.random() < 0.1:   # a second block (ignored by the reader, must still be well formed)
        s += "conditionals\nsecond{\n(" + names[0] + "|" + names[0] + ")\n}\n"
    return s


def gen_queries(rng, fancy=True):
    n = 6
    names = ["a", "b", "c", "d", "e", "f"]
    m = rng.randrange(1, 4)
    out = []
    for _ in range(m):
        out.append("(" + show(rng, gen_form(rng, n, rng.randrange(0, 3)), names, 0, fancy) + "|" + show(rng, gen_form(rng, n, rng.randrange(0, 3)), names, 0, fancy) + ")")
    return (",\n" if rng.random() < 0.7 else ",").join(out)


def mutate(rng, s):
    """Malformed variants: token/char deletion, duplication, insertion, trailing tokens, illegal characters."""
    if not s:
        return "("
    r = rng.random()
    i = rng.randrange(len(s))
    if r < 0.2:
        return s[:i] + s[i + 1:]
    if r < 0.35:
        return s[:i] + s[i] + s[i:]
    if r < 0.55:
        return s[:i] + rng.choice(["(", ")", ",", ";", "|", "!", "{", "}", "a", " b ", "\n", "signature", "conditionals", "#", "?", "&", "/", "/*", "Top", "1"]) + s[i:]
    if r < 0.8:
        return s + rng.choice([" b", ")", " garbage", "}", "|a", "\n,b", " ,", ";", " }}", "\n(a|b)", " /*", " x y"])
    if r < 0.9:
        j = rng.randrange(len(s))
        a, b = min(i, j), max(i, j)
        return s[:a] + s[b:]
    return s.replace(",", "", 1) if "," in s else s + ","


# ------------------------------------------------------------------ implementation side
def fnode_sexp(f):
    if f.is_symbol():
        return ("v", f.symbol_name())
    if f.is_true():
        return ("T",)
    if f.is_false():
        return ("F",)
    if f.is_not():
        return ("!", fnode_sexp(f.arg(0)))
    if f.is_and() or f.is_or():
        args = [fnode_sexp(a) for a in f.args()]
        t = "&" if f.is_and() else "|"
        cur = args[0]
        for a in args[1:]:
            cur = (t, cur, a)
        return cur
    return ("?", str(f))


def _worker(args):
    cid, mode, text = args
    common.setup_impl_env()
    from parser.Wrappers import parse_belief_base_from_str, parse_formula, parse_queries_from_str

    try:
        if mode == "f":
            return cid, ("OK", fnode_sexp(parse_formula(text)))
        if mode == "b":
            bb = parse_belief_base_from_str(text)
            conds = bb.conditionals
            sig, name = list(bb.signature), bb.name
        else:
            q = parse_queries_from_str(text)
            conds = q.conditionals
            sig, name = None, None
        out = []
        reparse_ok = True
        for k, c in conds.items():
            out.append((k, fnode_sexp(c.consequence), fnode_sexp(c.antecedence), str(c)))
            try:
                rq = parse_queries_from_str(str(c)).conditionals
                r1 = list(rq.values())[0]
                if len(rq) != 1 or fnode_sexp(r1.consequence) != fnode_sexp(c.consequence) or fnode_sexp(r1.antecedence) != fnode_sexp(c.antecedence):
                    reparse_ok = False
            except Exception:  # noqa
                reparse_ok = False
        return cid, ("OK", sig, name, out, reparse_ok)
    except BaseException as e:  # noqa
        return cid, ("ERR", type(e).__name__ + ":" + str(e)[:80])


def _worker_session(args):
    """several texts parsed one after the other in ONE process: whatever the parser remembers between calls must not leak"""
    sid, items = args
    return sid, [_worker((cid, mode, text))[1] for (cid, mode, text) in items]


def lookalikes(rng, text):
    """texts that differ from a well-formed one only by blanks / tabs / comments at or inside token boundaries"""
    out = []
    idpos = [i for i in range(1, len(text)) if (text[i].isalnum() or text[i] in "_-") and (text[i - 1].isalnum() or text[i - 1] in "_-")]
    for _ in range(2):
        if idpos:
            i = rng.choice(idpos)
            out.append(text[:i] + rng.choice([" ", "\t", "  ", "/*c*/", " \t"]) + text[i:])        # splits an identifier
    blanks = [i for i, ch in enumerate(text) if ch in " \t"]
    if blanks:
        i = rng.choice(blanks)
        out.append(text[:i] + text[i + 1:])                                                     # drops a blank
        out.append(text[:i] + ("\t" if text[i] == " " else " ") + text[i + 1:])                  # blank <-> tab
    j = rng.randrange(len(text) + 1) if text else 0
    out.append(text[:j] + " " + text[j:])                                                       # adds a blank anywhere
    return out


# ------------------------------------------------------------------ model side
def parse_prefix(toks, names):
    t = toks.pop(0)
    if t == "T":
        return ("T",)
    if t == "F":
        return ("F",)
    if t == "!":
        g = parse_prefix(toks, names)
        return g[1] if g[0] == "!" else ("!", g)      # pysmt: Not(Not(x)) = x
    if t in ("&", "|"):
        a = parse_prefix(toks, names)
        b = parse_prefix(toks, names)
        return (t, a, b)
    return ("v", names[int(t[1:])])


def run(tier, seed, broken_proof=False):
    rng = random.Random(seed + 1010)
    count = 1500 if tier == "quick" else 8000
    jobs = []
    for i in range(count):
        r = rng.random()
        if r < 0.4:
            n = rng.randrange(1, 6)
            names = rng.sample(NAMES, n)
            text = show(rng, gen_form(rng, n, rng.randrange(0, 7 if tier == "thorough" else 5)), names, 0, True)
            mode = "f"
        elif r < 0.75:
            text, mode = gen_file(rng, rng.random() < 0.8), "b"
        else:
            text, mode = gen_queries(rng, rng.random() < 0.7), "q"
        kind = "well-formed"
        if rng.random() < 0.45:
            for _ in range(rng.randrange(1, 3)):
                text = mutate(rng, text)
            kind = "mutated"
        jobs.append(("p%d" % i, mode, text, kind))
    # directed cases (trailing tokens etc.)
    directed = [("f", "a b"), ("f", "a)"), ("f", "a|b"), ("f", "a\n,b"), ("f", "a,"), ("f", ""), ("f", "!"), ("f", "a;;b"), ("f", "(a"), ("f", "a , b ; !c , d"),
                ("f", "!!a"), ("f", "!(a;b),c"), ("f", "Top,Bottom"), ("f", "signature"), ("f", "a/*x*/,b//y"), ("f", "a#"), ("f", "a /* open"),
                ("q", "(a|b)}"), ("q", "(a|b),"), ("q", "(a|b)\n,(c|d)"), ("q", "(a|b),\n\n(c|d)\n"), ("q", "(a|b) (c|d)"), ("q", "(a|b|c)"), ("q", ""),
                ("q", "(conditionals|a)"), ("q", "(a|b) // conditionals"), ("q", "(a|conditionalsx1)"), ("q", "(signaturex|conditionals-y)"), ("q", "(a|b) // signature conditionals"),
                ("b", "signature\n conditionalsx1,signatures\nconditionals\nk{\n(!conditionalsx1|signatures)\n}\n"),
                ("b", "signature\n a,b\nconditionals\nk{\n(a|b)\n}\n garbage"), ("b", "signature\n a,b\nconditionals\nk{\n(a|b)\n} }"),
                ("b", "signature\n a,a\nconditionals\nk{\n(a|a)\n}"), ("b", "signature\n a,Top\nconditionals\nk{\n}"), ("b", "signature\n a\nconditionals\nk{\n}\n"),
                ("b", "signature\n a,\n b\nconditionals\nk{\n}\n"), ("b", "signature a\nconditionals\nk{\n}\n"), ("b", "signature\n a\nconditionals k{\n}\n"),
                ("b", "signature\n a\nconditionals\nk{\n(a|a),(b|a)}"), ("b", "signature\n a\nconditionals\nk{(z|a)\n,(b|a)}")]
    for j, (m, t) in enumerate(directed):
        jobs.append(("d%d" % j, m, t, "directed"))
    # sessions: a well-formed text, its look-alikes (in random order) and the text again, parsed in one process
    sessions = []
    for i in range(count // 10):
        n = rng.randrange(2, 6)
        names = rng.sample([x for x in NAMES if len(x) >= 2] or NAMES, min(n, len([x for x in NAMES if len(x) >= 2]) or n))
        if rng.random() < 0.7:
            mode, text = "f", show(rng, gen_form(rng, len(names), rng.randrange(1, 4)), names, 0, rng.random() < 0.5)
        else:
            mode = "q"
            text = "(" + show(rng, gen_form(rng, len(names), rng.randrange(0, 3)), names, 0, False) + "|" + show(rng, gen_form(rng, len(names), rng.randrange(0, 3)), names, 0, False) + ")"
        alts = lookalikes(rng, text)
        rng.shuffle(alts)
        cut = rng.randrange(0, len(alts) + 1)
        seq = alts[:cut] + [text] + alts[cut:] + [text]
        items = []
        for k, t in enumerate(seq):
            cid = "s%d_%d" % (i, k)
            jobs.append((cid, mode, t, "session"))
            items.append((cid, mode, t))
        sessions.append(("s%d" % i, items))
    lines = []
    for cid, mode, text, kind in jobs:
        lines.append("P %s %s" % (cid, mode))
        codes = [min(ord(c), 200) for c in text]
        for k in range(0, len(codes), 200):
            lines.append("T " + " ".join(map(str, codes[k:k + 200])))
        lines.append("E")
    mres = {}
    for line in common._run_bin("\n".join(lines) + "\n"):
        parts = line.split("\t")
        mres[parts[0]] = parts[1:]
    ires = {}
    for cid, res in ops.pool().imap_unordered(_worker, [(j[0], j[1], j[2]) for j in jobs if j[3] != "session"], chunksize=8):
        ires[cid] = res
    for sid, ress in ops.pool().imap_unordered(_worker_session, sessions, chunksize=2):
        items = next(it for (s_, it) in sessions if s_ == sid)
        for (cid, _, _), res in zip(items, ress):
            ires[cid] = res
    violations = []
    strata = Counter()
    nontriv = set()
    samples = []
    for cid, mode, text, kind in jobs:
        m = mres[cid]
        im = ires[cid]
        strata["%s/%s" % (mode, kind)] += 1
        macc = m[0] == "OK"
        iacc = im[0] == "OK"
        strata["accepted" if macc else "rejected"] += 1
        if len(text) > 3:
            nontriv.add(text)
        if macc != iacc:
            violations.append({"kind": "accept-reject", "mode": mode, "text": text, "input_kind": kind, "expected": "accept" if macc else "reject",
                               "actual": im, "found_by": "directed" if kind == "directed" else "generated", "session": [t for (c_, m_, t) in next((it for (s_, it) in sessions if cid.startswith(s_ + "_")), [])] if kind == "session" else None,
                               "theorem_or_observable": "text that is not entirely well formed must be rejected / well-formed text accepted"})
            continue
        if not macc:
            continue
        if mode == "f":
            names = m[2].split(",") if m[2] else []
            exp = parse_prefix(m[1].split(), names)
            if exp != im[1]:
                violations.append({"kind": "ast", "mode": mode, "text": text, "expected": exp, "actual": im[1], "found_by": "generated",
                                   "theorem_or_observable": "formula AST (negation > ',' > ';', left associative)"})
        else:
            sig, name, conds, names = m[1], m[2], m[3], m[4].split(",") if m[4] else []
            exp = []
            if conds:
                for c in conds.split("#"):
                    k, b, a, txt = c.split("~")
                    exp.append((int(k), parse_prefix(b.split(), names), parse_prefix(a.split(), names), txt))
            got = [tuple(x) for x in im[3]]
            ok = exp == got and (mode != "b" or (im[1] == (sig.split(",") if sig else []) and im[2] == name)) and im[4]
            if not ok:
                violations.append({"kind": "file", "mode": mode, "text": text, "expected": {"sig": sig, "name": name, "conds": exp},
                                   "actual": {"sig": im[1], "name": im[2], "conds": got, "texts_reparse": im[4]}, "found_by": "generated",
                                   "theorem_or_observable": "signature / name / keys 1..n / consequent-antecedent / text representation"})
        if len(samples) < 3 and kind != "well-formed" and not macc:
            samples.append({"mode": mode, "text": text, "verdict": "reject"})
        if len(samples) < 5 and kind == "well-formed" and mode == "b" and len(samples) >= 3:
            samples.append({"mode": mode, "text": text, "verdict": "accept"})
    return {"evaluations": len(jobs), "distinct_nontrivial": len(nontriv),
            "rule": "grammar-directed generator: formulas (nesting <= %d, minimal + redundant parentheses, blanks, tabs, block comments), belief-base files (signature line, 0-4 conditionals, "
                    "\\n / \\r\\n / \\r line ends, blank lines, line comments, second block), query lists; 45%% of the texts are mutated 1-2 times (deletion, duplication, insertion of tokens and illegal "
                    "characters, trailing tokens, dropped separators); %d directed cases; sessions (a well-formed text, 3-5 look-alikes differing only by blanks/tabs/comments inside or between tokens, and the text again, parsed one after the other in one process); non-trivial = distinct text longer than 3 characters" % (6 if tier == "thorough" else 4, len(directed)),
            "samples": samples, "strata": dict(strata), "traces_validated_against_impl": len(jobs), "violations": violations[:25]}


def replay(payload):
    cid, res = _worker(("r", payload["mode"], payload["text"]))
    print("impl:", res, "expected:", payload.get("expected"))
    v = [payload] if (res[0] == "OK") != (payload.get("expected") == "accept") and payload.get("kind") == "accept-reject" else []
    return {"evaluations": 1, "distinct_nontrivial": 1, "rule": "replay", "samples": [payload["text"]], "violations": v}


def matches_known(f, payload):
    return common.generic_match(f, payload)
