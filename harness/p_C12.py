"""C12 correspondence: every case is re-presented in several ways (keys 0-based / sparse / permuted, reordered
base, renamed atoms, reordered and extended signature, equivalence-preserving rewrites of formulas) and every
operator's answers on each presentation are compared with the model's answer on the original (which, by the
theorems, is the definition's answer and depends on meaning only)."""
import random
from collections import Counter

import common
import ops
import opsprop
from common import And, F, Not, Or, T, V, cond_text, make_case

ASSUMPTIONS = opsprop.ASSUMPTIONS
CFGS_STRICT = ops.ALL_CONFIGS + [("c-inference", "rc2")]


def rewrite(rng, f, depth=0):
    """Equivalent formula with a different syntax tree (verification / falsification sets unchanged)."""
    r = rng.random()
    t = f[0]
    if t in ("&", "|") and rng.random() < 0.6 and depth < 3:
        f = (t, rewrite(rng, f[1], depth + 1), rewrite(rng, f[2], depth + 1))
    if r < 0.2:
        return Not(Not(f))
    if r < 0.35:
        return And(f, T)
    if r < 0.5:
        return Or(f, F)
    if r < 0.6:
        return And(f, f)
    if f[0] == "&" and r < 0.8:
        return Not(Or(Not(f[1]), Not(f[2])))
    if f[0] == "|" and r < 0.8:
        return Not(And(Not(f[1]), Not(f[2])))
    if f[0] in ("&", "|") and r < 0.9:
        return (f[0], f[2], f[1])
    return f


def rename(f, perm):
    if f[0] == "v":
        return V(perm[f[1]])
    return (f[0],) + tuple(rename(g, perm) if isinstance(g, tuple) else g for g in f[1:])


def variants(rng, case):
    n = case["n"]
    base, qs = case["base"], case["queries"]
    out = []
    m = len(base)
    out.append(("keys-0based", dict(case, base=[(i, b, a) for i, (_, b, a) in enumerate(base)])))
    sp = rng.sample(range(0, 60), m) if m else []
    out.append(("keys-sparse", dict(case, base=[(sp[i], b, a) for i, (_, b, a) in enumerate(base)])))
    pk = list(range(1, m + 1))
    rng.shuffle(pk)
    out.append(("keys-permuted", dict(case, base=[(pk[i], b, a) for i, (_, b, a) in enumerate(base)])))
    sh = list(base)
    rng.shuffle(sh)
    out.append(("base-reordered", dict(case, base=sh)))
    zk = list(base)
    if zk and all(k != 0 for (k, _, _) in zk):  # key 0 for a random conditional, others keep theirs: collides with reserved slots
        j = rng.randrange(m)
        zk[j] = (0, zk[j][1], zk[j][2])
        out.append(("one-key-0", dict(case, base=zk)))
    perm = list(range(n))
    rng.shuffle(perm)
    out.append(("atoms-renamed", dict(case, base=[(k, rename(b, perm), rename(a, perm)) for (k, b, a) in base],
                                      queries=[(k, rename(b, perm), rename(a, perm)) for (k, b, a) in qs])))
    sig2 = list(case["sig"])
    rng.shuffle(sig2)
    permsig = [sig2.index(s) for s in case["sig"]]
    out.append(("signature-reordered", dict(case, sig=sig2, base=[(k, rename(b, permsig), rename(a, permsig)) for (k, b, a) in base],
                                            queries=[(k, rename(b, permsig), rename(a, permsig)) for (k, b, a) in qs])))
    extra = [x for x in common.ATOM_NAMES if x not in case["sig"]][: rng.randrange(1, 3)]
    out.append(("signature-extended", dict(case, sig=list(case["sig"]) + extra, n=n + len(extra))))
    out.append(("formulas-rewritten", dict(case, base=[(k, rewrite(rng, b), rewrite(rng, a)) for (k, b, a) in base],
                                           queries=[(k, rewrite(rng, b), rewrite(rng, a)) for (k, b, a) in qs])))
    out.append(("formulas-rewritten-some", dict(case, base=[(k, rewrite(rng, b), rewrite(rng, a)) if rng.random() < 0.5 else (k, b, a) for (k, b, a) in base])))
    res = []
    for tag, c in out:
        c = dict(c)
        c["id"] = "%s~%s" % (case["id"], tag)
        res.append((tag, c))
    return res


def run(tier, seed, broken_proof=False):
    rng = random.Random(seed + 1212)
    count = 55 if tier == "quick" else 400
    violations = []
    corr = []
    strata = Counter()
    evals = 0
    nontriv = set()
    samples = []
    for weakly in (False, True):
        cand = ops.corpus_cases(weakly) + ops.gen_ops_cases(rng, count * 2, weakly, max_atoms=4, max_conds=5, nq=4, prefix="v%d" % weakly)
        m0 = common.run_model(cand)
        origs = [c for c in cand if m0[c["id"]]["part"] is not None and c["base"]][:count]
        for c in origs:
            if rng.random() < 0.3:      # the same conditional listed twice (other key): counts matter, identity must not
                k_, b_, a_ = rng.choice(c["base"])
                c["base"] = c["base"] + [(max(k for k, _, _ in c["base"]) + 1, b_, a_)]
        mm = common.run_model(origs)
        for c in origs:
            extra = ops.tie_queries(rng, c, mm[c["id"]]["part"], 2)
            k0 = len(c["queries"])
            c["queries"] = c["queries"] + [(k0 + 1 + i, b, a) for i, (b, a) in enumerate(extra)]
        cfgs = CFGS_STRICT if not weakly else ops.ALL_CONFIGS
        allcases = []
        owner = {}
        for c in origs:
            for tag, vc in variants(rng, c):
                allcases.append(vc)
                owner[vc["id"]] = (c, tag)
        mres = common.run_model(origs + allcases)
        ires = ops.run_impl(origs + allcases, cfgs)
        for vc in allcases:
            c, tag = owner[vc["id"]]
            strata[tag] += 1
            # the model itself must be invariant (sanity of the model against its own theorems)
            if [r for r in mres[vc["id"]]["model"]] != [r for r in mres[c["id"]]["model"]]:
                violations.append({"kind": "model-not-invariant", "variant": tag, "case": vc, "original": c, "found_by": "none",
                                   "theorem_or_observable": "model answers differ between presentations (%s)" % tag})
            for cfg in cfgs:
                name = ops.cfg_name(cfg)
                got = ires[vc["id"]][name]
                exp = ires[c["id"]][name]            # the implementation's own answers on the original presentation
                evals += len(c["queries"])
                if got != exp:
                    bad = [i for i in range(len(c["queries"]))] if not (isinstance(got, list) and isinstance(exp, list)) else [i for i, (g, e) in enumerate(zip(got, exp)) if g != e]
                    qi = bad[0] if bad else 0
                    small = dict(vc, queries=[vc["queries"][qi]])
                    violations.append({"kind": "presentation", "variant": tag, "config": name, "weakly": weakly, "case": small, "readable": opsprop.describe(small),
                                       "original": opsprop.describe(dict(c, queries=[c["queries"][qi]])), "expected": exp if not isinstance(exp, list) else exp[qi],
                                       "actual": got if not isinstance(got, list) else got[qi], "found_by": "generated",
                                       "theorem_or_observable": "answer of %s changes under re-presentation '%s'" % (name, tag)})
        # model = code on the original presentations (the invariance theorems reach the code only through this agreement)
        for c in origs:
            for cfg in cfgs:
                if cfg[0] == "c-inference":
                    continue
                name = ops.cfg_name(cfg)
                mexp = [row[cfg[0]] for row in mres[c["id"]]["model"]]
                got0 = ires[c["id"]][name]
                if got0 != mexp:
                    bad = [i for i, (g, e) in enumerate(zip(got0, mexp)) if g != e] if isinstance(got0, list) else [0]
                    qi = bad[0] if bad else 0
                    small = dict(c, queries=[c["queries"][qi]])
                    corr.append({"kind": "correspondence", "config": name, "weakly": weakly, "case": small, "readable": opsprop.describe(small),
                                 "model_answer": mexp[qi] if mexp else None, "actual": got0 if not isinstance(got0, list) else got0[qi], "found_by": "none",
                                 "theorem_or_observable": "model answer != implementation answer on an original presentation (C12's invariance theorems transfer to the code only through this agreement)"})
        for c in origs:
            for qi, q in enumerate(c["queries"]):
                if opsprop.query_nontrivial(c, q):
                    nontriv.add((c["id"], qi))
        if origs:
            c = origs[len(origs) // 2]
            samples.append({"original": opsprop.describe(c), "variants": [{t: opsprop.describe(v)["base"]} for t, v in variants(random.Random(1), c)[:4]]})
    if not [v for v in violations if v.get("found_by") != "none"]:
        violations += corr[:4]
    # de-duplicate violations by (variant, config)
    seen = set()
    uniq = []
    for v in violations:
        k = (v.get("variant"), v.get("config"), v.get("weakly"))
        if k in seen:
            continue
        seen.add(k)
        uniq.append(v)
    return {"evaluations": evals, "distinct_nontrivial": len(nontriv),
            "rule": "each consistent generated/corpus case is presented 10 ways (keys 0-based, sparse, permuted, one key 0; base reordered; atoms renamed; signature reordered / extended by unused atoms; "
                    "formulas rewritten to equivalent ones - all of them, or only some) and all operators/back-ends (c-inference strict only) are run on every presentation; non-trivial = distinct (base, query) with A&B and A&!B satisfiable",
            "samples": samples, "strata": dict(strata), "traces_validated_against_impl": evals, "violations": uniq[:25]}


def replay(payload):
    c = payload["case"]
    cfg = tuple(payload["config"].split("/")) if "/" in payload.get("config", "") else (payload.get("config", "system-z"), "")
    got = common.impl_infer(c, cfg[0], cfg[1] or "rc2")
    print("impl:", got, "expected:", payload.get("expected"))
    v = [payload] if (got if not isinstance(got, list) else got[0]) != payload.get("expected") else []
    return {"evaluations": 1, "distinct_nontrivial": 1, "rule": "replay", "samples": [opsprop.describe(c)], "violations": v}


def matches_known(f, payload):
    return common.generic_match(f, payload)
