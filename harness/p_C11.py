"""C11 correspondence: System W and lexicographic inference under every selectable partial-MaxSAT back-end
(z3, rc2 with each usable SAT engine), c-inference under every rc2 engine; every answer is compared with the
Coq model (W, lex) and all engines with each other (c-inference)."""
import os
import random
from collections import Counter

import common
import ops
import opsprop

ASSUMPTIONS = opsprop.ASSUMPTIONS + ["an engine that raises inside pysat's RC2 on every input (e.g. lingeling) is reported as unusable, not as a violation"]
ENGINES_QUICK = ["rc2", "rc2-g3", "rc2-g4", "rc2-cd", "rc2-m22", "rc2-mgh", "rc2-mc", "rc2-mcb", "rc2-gc3"]
ENGINES_ALL = ENGINES_QUICK + ["rc2-cd15", "rc2-cd19", "rc2-gc4", "rc2-mcm", "rc2-mpl", "rc2-mg3", "rc2-g42"]


PROBE = r'''
import sys, random
sys.path.insert(0, "/verif/harness")
import common, ops
common.setup_impl_env()
rng = random.Random(11)
cand = ops.corpus_cases(False) + ops.gen_ops_cases(rng, 60, False, max_atoms=5, nq=4, prefix="u")
m0 = common.run_model(cand)
ok = 0
for c in [c for c in cand if m0[c["id"]]["part"] is not None and c["base"]][:12]:
    for s in ("system-w", "lex_inf", "c-inference"):
        r = common.impl_infer(c, s, sys.argv[1])
        ok += isinstance(r, list)
print("PROBE-OK" if ok else "PROBE-NONE")
'''


def usable(engine):
    """An engine is usable if it is accepted by the optimiser and survives a small workload in a process of its own (some SAT engines
    of the installed pysat build crash the interpreter on ordinary instances: that is outside the repository and would take a worker down)."""
    import subprocess
    env = dict(os.environ, PYTHONPATH=common.REPO, PYTHONHASHSEED="0", INFOCF_LOGLEVEL="ERROR")
    try:
        r = subprocess.run(["/venv/bin/python", "-c", PROBE, engine], capture_output=True, text=True, env=env, timeout=300)
    except subprocess.TimeoutExpired:
        return False
    return r.returncode == 0 and "PROBE-OK" in r.stdout


def run(tier, seed, broken_proof=False):
    rng = random.Random(seed + 1111)
    common.setup_impl_env()
    wanted = ENGINES_QUICK if tier == "quick" else ENGINES_ALL
    import concurrent.futures
    with concurrent.futures.ThreadPoolExecutor(max_workers=8) as tp:
        flags = list(tp.map(usable, wanted))
    engines = [e for e, f in zip(wanted, flags) if f]
    unus = [e for e in wanted if e not in engines]
    count = 60 if tier == "quick" else 250
    violations = []
    strata = Counter()
    corr = []
    evals = 0
    nontriv = set()
    samples = []
    for weakly in (False, True):
        cand = ops.corpus_cases(weakly) + ops.gen_ops_cases(rng, count * 2, weakly, max_atoms=5, nq=5, prefix="e%d" % weakly)
        m0 = common.run_model(cand)
        cases = [c for c in cand if m0[c["id"]]["part"] is not None][:count]
        for c in cases:                                   # queries decided below the top layer
            extra = ops.tie_queries(rng, c, m0[c["id"]]["part"], 2)
            k0 = len(c["queries"])
            c["queries"] = c["queries"] + [(k0 + 1 + i, b, a) for i, (b, a) in enumerate(extra)]
        cfgs = [("system-w", "z3"), ("lex_inf", "z3")] + [("system-w", e) for e in engines] + [("lex_inf", e) for e in engines]
        ccfgs = [("c-inference", e) for e in engines] if not weakly else []
        mres = common.run_model(cases)
        ires = ops.run_impl(cases, cfgs + ccfgs, isolate_engines=True)
        # an engine of the SAT library that crashes on some instance is left out (and listed): the fault is not the repository's
        crashed = sorted({nm.split("/")[1] for r_ in ires.values() for nm, v in r_.items() if isinstance(v, str) and v.startswith("CRASH")})
        if crashed:
            for e in crashed:
                if e in engines:
                    engines.remove(e)
                    unus.append(e + " (crashed during the run)")
            cfgs = [cf for cf in cfgs if cf[1] not in crashed]
            ccfgs = [cf for cf in ccfgs if cf[1] not in crashed]
        # the property: all back-ends of one operator give the same answers
        for c in cases:
            for opn in ("system-w", "lex_inf"):
                names = [ops.cfg_name(cf) for cf in cfgs if cf[0] == opn]
                ref_name = names[0]                       # the z3 back-end
                ref = ires[c["id"]][ref_name]
                for nm in names[1:]:
                    got = ires[c["id"]][nm]
                    if got != ref:
                        bad = [i for i, (g, e) in enumerate(zip(got, ref)) if g != e] if isinstance(got, list) and isinstance(ref, list) else [0]
                        qi = bad[0] if bad else 0
                        small = dict(c, queries=[c["queries"][qi]]) if c["queries"] else c
                        violations.append({"kind": "backends-differ", "config": nm, "reference": ref_name, "weakly": weakly, "case": small, "readable": opsprop.describe(small),
                                           "expected": ref if not isinstance(ref, list) else ref[qi], "actual": got if not isinstance(got, list) else got[qi], "found_by": "generated",
                                           "model_answer": mres[c["id"]]["model"][qi][opn] if mres[c["id"]]["model"] else None,
                                           "theorem_or_observable": "answers of %s and %s differ" % (nm, ref_name)})
                        break
        # model = code (the theorems reach the code only through this agreement): reported as such when the back-ends agree with each other
        for d in ops.diff_ops(cases, mres, ires, cfgs)[:10]:
            c = d["case"]
            small = dict(c, queries=[c["queries"][d["query"]]] if d["query"] is not None else c["queries"][:1])
            corr.append({"kind": "correspondence", "config": d["config"], "weakly": weakly, "case": small, "readable": opsprop.describe(small),
                         "expected_model": d["model"], "actual": d["impl"], "found_by": "none",
                         "theorem_or_observable": "model answer != implementation answer under back-end %s (all back-ends agree with each other on this input)" % d["config"]})
        for c in cases:
            evals += len(c["queries"]) * len(cfgs + ccfgs)
            for qi, q in enumerate(c["queries"]):
                if opsprop.query_nontrivial(c, q):
                    nontriv.add((c["id"], qi))
            if ccfgs:
                ref = ires[c["id"]][ops.cfg_name(ccfgs[0])]
                for cf in ccfgs[1:]:
                    got = ires[c["id"]][ops.cfg_name(cf)]
                    if got != ref:
                        violations.append({"kind": "c-engines", "config": ops.cfg_name(cf), "case": c, "readable": opsprop.describe(c),
                                           "expected": ref, "actual": got, "found_by": "generated",
                                           "theorem_or_observable": "c-inference answers differ between rc2 SAT engines"})
            for s in ops.strata(c, mres[c["id"]]):
                strata[s] += 1
        if cases:
            samples.append(opsprop.describe(cases[len(cases) // 2]))
    strata["engines"] = len(engines)
    if not violations:
        violations += corr[:6]
    return {"evaluations": evals, "distinct_nontrivial": len(nontriv),
            "rule": "generated + corpus cases, both modes; System W and lex under z3 and rc2 with engines %s (unusable in this build: %s), c-inference under each rc2 engine (strict); "
                    "non-trivial = distinct (base, query) with A&B and A&!B satisfiable" % (engines, unus),
            "samples": samples, "strata": dict(strata), "engines": engines, "unusable_engines": unus,
            "traces_validated_against_impl": evals, "violations": violations[:25]}


def replay(payload):
    c = payload["case"]
    cfg = tuple(payload["config"].split("/")) if "/" in payload.get("config", "") else ("system-w", "rc2")
    return opsprop.replay_ops(payload, [cfg])


def matches_known(f, payload):
    return common.generic_match(f, payload)
