"""C15 correspondence / translation validation by a verified checker:
(a) every CNF the working tree produces for verification / falsification / non-falsification of generated
    conditionals (and for queries) is checked for faithfulness by Cnf.check_faithful (proved sound+complete);
(b) every observed Optimizer.minimal_correction_subsets call (system-w, lex_inf, c-inference; rc2 engines) is
    replayed at clause level in the Coq model (Cnf.mcs_clause, proved to be what the loop computes for any
    oracle meeting the contract) and the returned family compared; every RC2 answer is checked against the
    oracle contract (model satisfies the hard clauses, reported cost = number of violated soft clauses)."""
import random
from collections import Counter

import common
import ops
from common import And, F, Not, Or, T, V, cond_text, gen_formula, make_case, to_prefix

ASSUMPTIONS = [
    "z3's tseitin-cnf tactic is not modelled: its output is validated per instance by the verified checker (not proved for all formulas)",
    "calls with more than MAXV variables are skipped (counted in the evidence)",
    "model = code only on the generated inputs of this run",
]
MAXV = 16


def _cnf_worker(args):
    cid, sig, b, a = args
    common.setup_impl_env()
    from inference.inference_manager import create_epistemic_state
    from inference.tseitin_transformation import TseitinTransformation

    case = {"sig": sig, "base": [(1, b, a)]}
    bb = common.build_bb(case)
    es = create_epistemic_state(bb, "system-w", "z3", "rc2", False)
    tt = TseitinTransformation(es)
    try:
        tt.belief_base_to_cnf(True, True, True)
        qv, qf = tt.query_to_cnf(bb.conditionals[1])
    except Exception as e:  # noqa
        return cid, "EXC:%s:%s" % (type(e).__name__, str(e)[:100])
    pool = es["pool"]
    name2var = {}
    for obj, vid in pool.obj2id.items():
        name2var[str(obj)] = vid
    out = {}
    for tag, cnf in (("v", es["v_cnf_dict"][1]), ("f", es["f_cnf_dict"][1]), ("nf", es["nf_cnf_dict"][1]), ("qv", qv), ("qf", qf)):
        out[tag] = [list(c) for c in cnf]
    return cid, {"cnfs": out, "atomvars": [name2var.get(s) for s in sig]}


def _mcs_worker(args):
    case, configs = args
    common.setup_impl_env()
    import inference.optimizer as opt
    from pysat.examples.rc2 import RC2

    calls = []
    orig = opt.OptimizerRC2.minimal_correction_subsets
    orig_compute = RC2.compute
    oracle = {"n": 0, "bad": []}

    def wrapped(self, wcnf, *args, **kw):
        # the call is passed on exactly as it was made (an omitted `ignore` stays omitted: it means "ignore nothing")
        given = kw["ignore"] if "ignore" in kw else (args[0] if args else [])
        rec = {"hard": [list(c) for c in wcnf.hard], "soft": [list(c) for c in wcnf.soft], "ignore": list(given),
               "nf": {k: [list(c) for c in v] for k, v in self.epistemic_state["nf_cnf_dict"].items()}, "answers": []}
        cur = {"rec": rec}

        def compute(rc2self):
            m = orig_compute(rc2self)
            if m is not None:
                rec["answers"].append((list(m), rc2self.cost))
            return m

        RC2.compute = compute
        try:
            res = orig(self, wcnf, *args, **kw)
        finally:
            RC2.compute = orig_compute
        rec["result"] = [sorted(x) for x in res]
        # hypothesis of C15_blocking_constraint on this very call: helper variables and formula variables are numbered apart, i.e.
        # the shared id pool is injective (RC2 maps ids above the formula's own to fresh internal variables, so its selectors do not count)
        clash = []
        try:
            pool = self.epistemic_state.get("pool")
            seen_h = {}
            for o, i in list(pool.obj2id.items()) if pool is not None else []:
                if i in seen_h:
                    clash.append([str(o)[:30], i, "id also held by %s" % str(seen_h[i])[:30]])
                seen_h[i] = o
        except Exception:  # noqa  (a renamed internal: the family comparison below still decides)
            pass
        rec["helper_clash"] = clash
        calls.append(rec)
        return res

    opt.OptimizerRC2.minimal_correction_subsets = wrapped
    answers = {}
    try:
        for cfg in configs:
            answers[ops.cfg_name(cfg)] = common.impl_infer(case, cfg[0], cfg[1])
    finally:
        opt.OptimizerRC2.minimal_correction_subsets = orig
    # oracle contract per answer
    for rec in calls:
        for (m, cost) in rec["answers"]:
            oracle["n"] += 1
            ms = set(m)
            if not all(any(l in ms for l in c) for c in rec["hard"]):
                oracle["bad"].append(("hard-violated", rec["hard"], m))
            viol = sum(1 for c in rec["soft"] if not any(l in ms for l in c))
            if viol != cost:
                oracle["bad"].append(("cost", cost, viol))
        del rec["answers"]
    return case["id"], calls, answers, oracle


def lits(c, ren):
    return " ".join(str((1 if l > 0 else -1) * (ren[abs(l)] + 1)) for l in c)


def run(tier, seed, broken_proof=False):
    rng = random.Random(seed + 1515)
    violations = []
    strata = Counter()
    samples = []
    # ---------------- (a) faithfulness
    nform = 260 if tier == "quick" else 2500
    jobs = []
    forms = {}
    for i in range(nform):
        n = rng.randrange(1, 5)
        depth = rng.choice([1, 2, 2, 3] if tier == "quick" else [1, 2, 3, 3, 4])
        b = gen_formula(rng, n, depth, 0.12)
        a = gen_formula(rng, n, depth, 0.12)
        if i % 5 == 4:      # constant-heavy: (negated) Top / Bottom mixed with literals in one clause, every order
            def cf(d):
                r = rng.random()
                if d == 0 or r < 0.35:
                    t = rng.random()
                    k = T if t < 0.2 else F if t < 0.4 else Not(T) if t < 0.6 else Not(F) if t < 0.8 else common.gen_lit(rng, n)
                    return k
                x_, y_ = cf(d - 1), cf(d - 1)
                return Or(x_, y_) if r < 0.75 else And(x_, y_)
            b = cf(2) if rng.random() < 0.6 else And(common.gen_lit(rng, n), cf(2))
            a = cf(2) if rng.random() < 0.4 else common.gen_lit(rng, n)
        if i < 12:  # directed: constants in every position, repeated atoms, tautologies, contradictions
            x, y = V(0), V(1 % n) if n > 1 else V(0)
            b, a = [(x, T), (T, x), (F, x), (x, F), (And(x, T), Or(y, F)), (Or(x, Not(x)), And(y, Not(y))), (And(x, x), Or(x, x)),
                    (Not(T), Not(F)), (Or(And(x, y), And(Not(x), Not(y))), T), (x, And(T, T)), (Not(And(x, x)), x), (And(Or(x, T), y), Not(Not(x)))][i]
        sig = common.ATOM_NAMES[:max(n, 2)]
        cid = "f%d" % i
        forms[cid] = (sig, b, a)
        jobs.append((cid, sig, b, a))
    lines = []
    meta = {}
    skipped = 0
    for cid, res in ops.pool().imap_unordered(_cnf_worker, jobs, chunksize=4):
        sig, b, a = forms[cid]
        if isinstance(res, str):
            violations.append({"kind": "cnf-exception", "formula": cond_text((1, b, a), sig), "actual": res, "found_by": "generated",
                               "theorem_or_observable": "CNF construction raised"})
            continue
        for tag, cnf in res["cnfs"].items():
            f = {"v": And(a, b), "qv": And(a, b), "f": And(a, Not(b)), "qf": And(a, Not(b)), "nf": Or(Not(a), b)}[tag]
            vars_ = sorted({abs(l) for c in cnf for l in c} | {v for v in res["atomvars"] if v is not None})
            ren = {v: i for i, v in enumerate(vars_)}
            nv = len(vars_)
            amap = []
            for v in res["atomvars"]:
                if v is None:
                    amap.append(nv)
                    nv += 1
                else:
                    amap.append(ren[v])
            if nv > MAXV:
                skipped += 1
                continue
            kid = "%s-%s" % (cid, tag)
            meta[kid] = (sig, b, a, tag, cnf)
            lines.append("K %s %d" % (kid, nv))
            lines.append("A " + " ".join(map(str, amap)))
            lines.append("O " + to_prefix(f))
            for c in cnf:
                lines.append("L " + lits(c, ren))
            lines.append("E")
            strata["cnf-" + tag] += 1
            strata["cnf-clauses=%d" % min(len(cnf), 6)] += 1
            if any(x[0] in ("T", "F") for x in _subforms(b) + _subforms(a)):
                strata["cnf-with-constants"] += 1
    ncnf = 0
    for line in common._run_bin("\n".join(lines) + "\n"):
        kid, ok = line.split("|")
        ncnf += 1
        if ok != "1":
            sig, b, a, tag, cnf = meta[kid]
            violations.append({"kind": "cnf-unfaithful", "which": tag, "conditional": cond_text((1, b, a), sig), "cnf": cnf,
                               "b": b, "a": a, "sig": sig, "found_by": "generated",
                               "theorem_or_observable": "check_faithful (sound+complete checker) rejects the %s-CNF" % tag})
    if meta:
        k0 = sorted(meta)[len(meta) // 2]
        samples.append({"conditional": cond_text((1, meta[k0][1], meta[k0][2]), meta[k0][0]), "which": meta[k0][3], "cnf": meta[k0][4]})
    strata["cnf-skipped-too-many-vars"] = skipped

    # ---------------- (b) MCS calls
    ncase = 60 if tier == "quick" else 500
    cand = ops.corpus_cases(False) + ops.gen_ops_cases(rng, ncase * 2, False, max_atoms=4, max_conds=5, nq=3, prefix="m")
    candw = ops.corpus_cases(True) + ops.gen_ops_cases(rng, ncase, True, max_atoms=4, max_conds=5, nq=3, prefix="mw")
    m0 = common.run_model(cand + candw)
    cases = [c for c in cand if m0[c["id"]]["part"] is not None][:ncase] + [c for c in candw if m0[c["id"]]["part"] is not None][: ncase // 2]
    engines = ["rc2"] if tier == "quick" else ["rc2", "rc2-g4", "rc2-cd", "rc2-m22", "rc2-mc"]
    jobs = []
    for i, c in enumerate(cases):
        eng = engines[i % len(engines)]
        cfgs = [("system-w", eng), ("lex_inf", eng)] + ([("c-inference", eng)] if not c["weakly"] else [])
        jobs.append((c, cfgs))
    lines = []
    meta2 = {}
    ncalls = 0
    noracle = 0
    byid = {c["id"]: c for c in cases}
    for cid, calls, answers, oracle in ops.pool().imap_unordered(_mcs_worker, jobs, chunksize=2):
        noracle += oracle["n"]
        for bad in oracle["bad"][:2]:
            violations.append({"kind": "oracle-contract", "case": byid[cid], "detail": bad, "found_by": "generated",
                               "theorem_or_observable": "RC2 answer violates the MaxSAT oracle contract assumed by the loop theorem"})
        for j, rec in enumerate(calls):
            if rec.get("helper_clash"):
                violations.append({"kind": "helper-variables", "case": byid[cid], "clash": rec["helper_clash"], "hard": rec["hard"], "found_by": "none",
                                   "theorem_or_observable": "hypothesis of C15_blocking_constraint not met on an observed call (helper variables fresh and distinct): the blocking theorem no longer covers this call"})
            groups = [(k, cl) for k, cl in rec["nf"].items() if k not in rec["ignore"]]
            vars_ = sorted({abs(l) for c in rec["hard"] for l in c} | {abs(l) for _, cl in groups for c in cl for l in c})
            if len(vars_) > MAXV:
                strata["mcs-skipped-too-many-vars"] += 1
                continue
            ren = {v: i for i, v in enumerate(vars_)}
            mid = "%s-c%d" % (cid, j)
            meta2[mid] = (cid, rec)
            lines.append("M %s %d" % (mid, len(vars_)))
            for c in rec["hard"]:
                lines.append("H " + lits(c, ren))
            for k, cl in groups:
                lines.append("S %d" % k)
                for c in cl:
                    lines.append("L " + lits(c, ren))
            lines.append("E")
            ncalls += 1
    import re
    nontrivial = set()
    for line in common._run_bin("\n".join(lines) + "\n"):
        mid, fam, famloop = line.split("|")
        exp = sorted(sorted(int(x) for x in s.split(",") if x) for s in re.findall(r"\{([0-9,]*)\}", fam))
        exploop = sorted(sorted(int(x) for x in s.split(",") if x) for s in re.findall(r"\{([0-9,]*)\}", famloop))
        cid, rec = meta2[mid]
        got = sorted(rec["result"])
        strata["mcs-family-size=%d" % min(len(exp), 4)] += 1
        if len(exp) >= 2:
            strata["mcs-several-incomparable"] += 1
        if not rec["hard"]:
            strata["mcs-no-hard"] += 1
        if len(exp) >= 1 and exp != [[]]:
            nontrivial.add(mid)
        if exploop != exp:
            violations.append({"kind": "model-loop-vs-family", "call": rec, "expected": exp, "actual": exploop, "found_by": "none",
                               "theorem_or_observable": "mcs_loop_correct (model loop vs reference family)"})
        if got != exp or len(got) != len({tuple(x) for x in got}):
            violations.append({"kind": "mcs-family", "case": byid[cid], "readable": {"base": [cond_text(x, byid[cid]["sig"]) for x in byid[cid]["base"]]},
                               "hard": rec["hard"], "ignore": rec["ignore"], "nf": rec["nf"], "expected": exp, "actual": got, "found_by": "generated",
                               "theorem_or_observable": "minimal_correction_subsets family vs inclusion-minimal falsification sets of the models of the hard clauses"})
        if len(samples) < 3 and len(exp) >= 2:
            samples.append({"hard": rec["hard"], "groups": {k: v for k, v in rec["nf"].items() if k not in rec["ignore"]}, "family": exp})
    return {
        "evaluations": ncnf + ncalls, "distinct_nontrivial": len(nontrivial) + sum(1 for k in meta if True),
        "programs": ncnf + ncalls, "disagreements_checked": len(violations),
        "rule": "(a) %d generated conditionals (depth<=%d, constants 12%%, repeated atoms, tautologies/contradictions, directed constant cases): v/f/nf CNFs and query CNFs checked by "
                "check_faithful; (b) every minimal_correction_subsets call of system-w, lex_inf, c-inference on generated cases replayed at clause level; non-trivial = call whose "
                "family is neither empty nor {{}} / every CNF" % (nform, 4 if tier == "thorough" else 3),
        "samples": samples, "strata": dict(strata), "oracle_answers_validated": noracle,
        "traces_validated_against_impl": ncnf + ncalls, "violations": violations[:25],
    }


def _subforms(f):
    out = [f]
    for g in f[1:]:
        if isinstance(g, tuple):
            out += _subforms(g)
    return out


def replay(payload):
    v = []
    if payload.get("kind") == "cnf-unfaithful":
        cid, res = _cnf_worker(("r", payload["sig"], tuple_(payload["b"]), tuple_(payload["a"])))
        print(res)
    return {"evaluations": 1, "distinct_nontrivial": 1, "rule": "replay", "samples": [str(payload)[:300]], "violations": v}


def tuple_(x):
    return tuple(tuple_(y) if isinstance(y, list) else y for y in x)


def matches_known(f, payload):
    return common.generic_match(f, payload)
