"""C05 correspondence: c-inference of the working tree vs (i) the Coq model's vMin/fMin families per conditional and
per query, (ii) the definition (skeptical inference over all c-representations) decided by an independent z3
encoding over enumerated worlds, each 'not entailed' verdict being confirmed by the Coq definitions on the
returned impact vector (exact), each 'entailed' verdict cross-checked by a bounded search in the Coq model."""
import itertools
import random
import re
from collections import Counter

import common
import ops
import opsprop
from common import cond_text, ev, make_case, to_prefix

ASSUMPTIONS = [
    "satisfiability of the integer CSP is decided by z3 (oracle), in the implementation and in the independent definition-level encoding",
    "'entailed' verdicts are cross-checked in the Coq model only up to impacts <= BOUND (a search, not a proof); 'not entailed' verdicts are confirmed exactly on the witness",
    "model = code only on the generated and corpus inputs of this run",
]
BOUND = 3


def _worker(case):
    common.setup_impl_env()
    from inference.inference_manager import InferenceManager

    bb = common.build_bb(case)
    qs = common.build_queries(case)
    out = {"id": case["id"]}
    try:
        mgr = InferenceManager(bb, "c-inference", "z3", "rc2", False)
        df = mgr.inference(qs)
        out["answers"] = [bool(x) for x in df["result"]]
        out["vMin"] = {k: sorted(sorted(s) for s in v) for k, v in mgr.epistemic_state["vMin"].items()}
        out["fMin"] = {k: sorted(sorted(s) for s in v) for k, v in mgr.epistemic_state["fMin"].items()}
    except AssertionError:
        out["answers"] = "REFUSE"
    except Exception as e:  # noqa
        out["answers"] = "EXC:%s:%s" % (type(e).__name__, str(e)[:120])
    # the definition, by an independent encoding over enumerated worlds
    out["spec"] = spec_cinf(case)
    return out


def spec_cinf(case):
    import z3

    n = case["n"]
    worlds = list(itertools.product([False, True], repeat=n))
    base = case["base"]
    eta = [z3.Int("e%d" % i) for i in range(len(base))]

    def kap(w):
        terms = [eta[i] for i, (_, b, a) in enumerate(base) if ev(a, w) and not ev(b, w)]
        return z3.Sum(terms) if terms else z3.IntVal(0)

    def accepts(b, a):
        vs = [w for w in worlds if ev(a, w) and ev(b, w)]
        fs = [w for w in worlds if ev(a, w) and not ev(b, w)]
        if not fs:
            return z3.BoolVal(bool(vs))      # rank(ver) < infinity iff some verifying world
        if not vs:
            return z3.BoolVal(False)
        return z3.Or([z3.And([kap(v) < kap(f) for f in fs]) for v in vs])

    s0 = [e >= 0 for e in eta] + [accepts(b, a) for (_, b, a) in base]
    res = []
    for (_, b, a) in case["queries"]:
        sat_a = any(ev(a, w) for w in worlds)
        sat_anb = any(ev(a, w) and not ev(b, w) for w in worlds)
        if not sat_a or not sat_anb:
            res.append((True, None))
            continue
        s = z3.Solver()
        s.add(*s0)
        s.add(z3.Not(accepts(b, a)))
        r = s.check()
        if r == z3.sat:
            m = s.model()
            res.append((False, [m.eval(e, model_completion=True).as_long() for e in eta]))
        elif r == z3.unsat:
            res.append((True, None))
        else:
            res.append((None, None))
    return res


def fam_parse(s):
    return sorted(sorted(int(x) for x in t.split(",") if x) for t in re.findall(r"\{([0-9,]*)\}", s))


def run(tier, seed, broken_proof=False):
    rng = random.Random(seed + 505)
    count = 200 if tier == "quick" else 1200
    cand = ops.corpus_cases(False) + ops.gen_ops_cases(rng, count * 2, False, max_atoms=4, max_conds=5, nq=5, prefix="c")
    m0 = common.run_model(cand)
    cases = [c for c in cand if m0[c["id"]]["part"] is not None and c["base"]][:count]
    # larger exception hierarchies (parallel properties, conjunctive exceptions, free defaults): forced impacts beyond small bounds
    big = []
    for i in range(count // 4):
        nn = rng.randrange(5, 7)
        big.append(make_case("cb%d" % i, nn, common.gen_base_hierarchy(rng, nn, 5), [(1, common.V(0), common.V(1))], False))
    mb = common.run_model(big)
    cases += [c for c in big if mb[c["id"]]["part"] is not None and len(c["base"]) <= 6][: count // 6]
    for c in cases:
        tq = ops.tradeoff_queries(rng, c, 4)
        k = max([q[0] for q in c["queries"]] + [0])
        c["queries"] = list(c["queries"]) + [(k + 1 + i, b, a) for i, (b, a) in enumerate(tq)]
    # the model's c-inference structures use positions; bases here are keyed 1..n in order
    ires = {}
    for out in ops.pool().imap_unordered(_worker, cases, chunksize=2):
        ires[out["id"]] = out
    lines = []
    for c in cases:
        lines.append("I %s %d %d" % (c["id"], c["n"], BOUND))
        for (k, b, a) in c["base"]:
            lines.append("D %d %s ; %s" % (k, to_prefix(b), to_prefix(a)))
        for (k, b, a) in c["queries"]:
            lines.append("Q %d %s ; %s" % (k, to_prefix(b), to_prefix(a)))
        for qi, (ans, wit) in enumerate(ires[c["id"]]["spec"]):
            if wit is not None:
                lines.append("X %d %s" % (qi, " ".join(map(str, wit))))
        lines.append("E")
    mres = {}
    for line in common._run_bin("\n".join(lines) + "\n"):
        cid, mins, selff, qrows, wres = line.split("|")
        mres[cid] = {"mins": [m.split(";") for m in mins.split(" ")] if mins else [], "selff": selff == "1",
                     "q": [r.split(";") for r in qrows.split(" ")] if qrows else [], "wit": wres}
    violations = []
    corr = []
    strata = Counter()
    nontriv = set()
    evals = 0
    samples = []
    for c in cases:
        im = ires[c["id"]]
        m = mres[c["id"]]
        keys = [k for (k, _, _) in c["base"]]
        if not isinstance(im["answers"], list):
            violations.append({"kind": "exception", "case": c, "readable": opsprop.describe(c), "actual": im["answers"], "found_by": "generated",
                               "theorem_or_observable": "c-inference raised / refused on a consistent base"})
            continue
        # (i) vMin / fMin per conditional
        for pos, k in enumerate(keys):
            for tag, idx in (("vMin", 0), ("fMin", 1)):
                exp = sorted(sorted(keys[p] for p in s) for s in fam_parse(m["mins"][pos][idx]))
                got = im[tag].get(k)
                evals += 1
                if got != exp:
                    corr.append({"kind": "minima", "which": tag, "key": k, "case": c, "readable": opsprop.describe(c), "expected": exp, "actual": got,
                                       "found_by": "none", "theorem_or_observable": "(internal correspondence; no wrong answer was found) " + "%s[%d] vs minimal falsification sets of the worlds %s the conditional" % (tag, k, "verifying" if idx == 0 else "falsifying")})
                if not exp:
                    strata["unfalsifiable-conditional" if idx == 1 else "unverifiable-conditional"] += 1
                if len(exp) >= 2:
                    strata["several-minimal-sets"] += 1
        if m["selff"]:
            strata["self-fulfilling-base"] += 1
        # (ii) answers
        wi = 0
        for qi, q in enumerate(c["queries"]):
            spec, wit = im["spec"][qi]
            got = im["answers"][qi]
            evals += 1
            nt = opsprop.query_nontrivial(c, q)
            if nt:
                nontriv.add((common.case_key(dict(c, queries=[])), qi))
            strata["entailed" if spec else "not-entailed"] += 1
            if wit is not None:
                ok = m["wit"][wi] == "1"
                wi += 1
                if not ok:
                    violations.append({"kind": "oracle-witness", "case": dict(c, queries=[q]), "witness": wit, "found_by": "none",
                                       "theorem_or_observable": "definition-level z3 witness rejected by the Coq definitions (harness oracle inconsistent)"})
            elif spec is True and nt:
                found = m["q"][qi][2]
                if found != "-":
                    violations.append({"kind": "oracle-search", "case": dict(c, queries=[q]), "counter": found, "found_by": "none",
                                       "theorem_or_observable": "Coq bounded search found a counter c-representation although the z3 oracle says entailed"})
            if spec is None:
                continue
            if got != spec:
                small = dict(c, queries=[q])
                violations.append({"kind": "answer", "config": "c-inference/rc2", "case": small, "readable": opsprop.describe(small), "expected_spec": spec,
                                   "counter_representation": wit, "actual": got, "found_by": "corpus" if c["id"].startswith("corp") else "generated",
                                   "theorem_or_observable": "c-inference answer vs skeptical inference over all c-representations"})
        if len(samples) < 3 and len(c["base"]) >= 3:
            samples.append({"base": [cond_text(x, c["sig"]) for x in c["base"]], "vMin": im.get("vMin"), "fMin": im.get("fMin"),
                            "queries": [cond_text(q, c["sig"]) for q in c["queries"]], "answers": im["answers"]})
    if not [v for v in violations if v.get("found_by") != "none"]:
        violations += corr[:6]
    return {
        "evaluations": evals, "distinct_nontrivial": len(nontriv),
        "rule": "strongly consistent generated bases (<=4 atoms, <=5 conditionals incl. constants, unfalsifiable and duplicate conditionals) keyed 1..n + corpus; compared: vMin/fMin of every "
                "conditional with the model, every answer with the definition decided over enumerated worlds (independent z3 encoding; witnesses re-checked exactly by the Coq definitions, "
                "entailed verdicts cross-checked by Coq bounded search up to impact %d); non-trivial = distinct (base, query) with A&B and A&!B satisfiable" % BOUND,
        "samples": samples, "strata": dict(strata), "traces_validated_against_impl": evals, "violations": violations[:25],
    }


def replay(payload):
    c = payload["case"]
    out = _worker(c)
    print("impl:", out["answers"], "definition:", out["spec"])
    v = []
    if isinstance(out["answers"], list):
        for a, (s, _) in zip(out["answers"], out["spec"]):
            if s is not None and a != s:
                v.append(payload)
                break
    return {"evaluations": 1, "distinct_nontrivial": 1, "rule": "replay", "samples": [opsprop.describe(c)], "violations": v}


def matches_known(f, payload):
    return common.generic_match(f, payload)
