"""C07 correspondence: all operators / back-ends in extended mode vs the Coq model / definition."""
import common
import opsprop

ASSUMPTIONS = opsprop.ASSUMPTIONS
CONFIGS = [("p-entailment", ""), ("system-z", ""), ("system-w", "rc2"), ("system-w", "z3"), ("lex_inf", "rc2"), ("lex_inf", "z3")]
MODES = [True]


def run(tier, seed, broken_proof=False):
    return opsprop.run_ops_property("C07", CONFIGS, MODES, tier, seed)


def replay(payload):
    return opsprop.replay_ops(payload, CONFIGS)


def matches_known(f, payload):
    return common.generic_match(f, payload)
