"""C13 correspondence: random sequences of InferenceManager.inference() calls on one manager object (repeated and
interleaved batches, duplicate query texts, arbitrary integer query keys), sequential and parallel evaluation, all
operators / back-ends; every returned table is compared with the model: one row per submitted query, in submission
order, own key, own text, the operator's answer for that query alone; no worker processes are left behind."""
import random
from collections import Counter

import common
import ops
import opsprop
from common import cond_text, make_case

ASSUMPTIONS = [
    "process isolation and reaping of workers are runtime behaviour: observed (active_children, /proc children), not proved",
    "a worker outliving join(timeout+10) is not exercised in the quick tier",
    "model = code only on the generated call sequences of this run",
]
CFGS = ops.ALL_CONFIGS + [("c-inference", "rc2")]


def _worker(args):
    case, cfg, calls = args
    common.setup_impl_env()
    import multiprocessing as mp
    import os

    from inference.inference_manager import InferenceManager
    from inference.queries import Queries

    bb = common.build_bb(case)
    out = {"id": case["id"], "cfg": ops.cfg_name(cfg), "tables": []}
    try:
        mgr = InferenceManager(bb, cfg[0], "z3", cfg[1] or "rc2", case["weakly"])
    except Exception as e:  # noqa
        out["error"] = "EXC:%s:%s" % (type(e).__name__, str(e)[:100])
        return out
    for (batch, parallel) in calls:
        qcase = dict(case, queries=batch)
        qs = Queries(common.build_bb(qcase, "queries", "q").conditionals)
        try:
            df = mgr.inference(qs, multi_inference=parallel)
            rows = [(int(df.at[i, "index"]), str(df.at[i, "query"]), bool(df.at[i, "result"]), bool(df.at[i, "inference_timed_out"])) for i in range(len(df))]
            out["tables"].append(rows)
        except AssertionError:
            out["tables"].append("REFUSE")
        except Exception as e:  # noqa
            out["tables"].append("EXC:%s:%s" % (type(e).__name__, str(e)[:100]))
        if parallel:
            kids = mp.active_children()
            try:
                ch = open("/proc/%d/task/%d/children" % (os.getpid(), os.getpid())).read().split()
            except Exception:  # noqa
                ch = []
            out.setdefault("leftover", []).append((len(kids), len(ch)))
    # the implementation's own answer to every distinct query asked alone on a fresh manager (the property's reference point)
    alone = {}
    for (batch, _) in calls:
        for (k, b, a) in batch:
            t = common.cond_text((k, b, a), case["sig"])
            if t in alone:
                continue
            try:
                m1 = InferenceManager(common.build_bb(case), cfg[0], "z3", cfg[1] or "rc2", case["weakly"])
                df = m1.inference(Queries(common.build_bb(dict(case, queries=[(k, b, a)]), "queries", "q").conditionals))
                alone[t] = bool(df.at[0, "result"])
            except AssertionError:
                alone[t] = "REFUSE"
            except Exception as e:  # noqa
                alone[t] = "EXC:%s" % type(e).__name__
    out["alone"] = alone
    return out


def run(tier, seed, broken_proof=False):
    rng = random.Random(seed + 1313)
    count = 60 if tier == "quick" else 400
    violations = []
    strata = Counter()
    evals = 0
    nontriv = set()
    samples = []
    jobs = []
    expect = {}
    for weakly in (False, True):
        cand = ops.corpus_cases(weakly)[:2] + ops.gen_ops_cases(rng, count * 2, weakly, max_atoms=4, max_conds=5, nq=6, prefix="h%d" % weakly)
        m0 = common.run_model(cand)
        cases = [c for c in cand if m0[c["id"]]["part"] is not None and c["base"]][: count // 2]
        for ci, c in enumerate(cases):
            cfgs = CFGS if not weakly else ops.ALL_CONFIGS
            cfg = cfgs[ci % len(cfgs)]
            pool_q = c["queries"]
            calls = []
            for _ in range(rng.randrange(2, 5)):
                k = rng.randrange(1, min(5, len(pool_q)) + 1)
                picked = [rng.choice(pool_q) for _ in range(k)]      # duplicates on purpose
                keys = rng.sample(range(0, 40), k)                    # arbitrary distinct integer keys
                batch = [(keys[j], q[1], q[2]) for j, q in enumerate(picked)]
                parallel = rng.random() < (0.3 if tier == "quick" else 0.4)
                calls.append((batch, parallel))
            jid = "%s@%s" % (c["id"], ops.cfg_name(cfg))
            jobs.append((dict(c, id=jid), cfg, calls))
            expect[jid] = (c, cfg, calls)
    # sessions whose queries mention atoms the base never mentions (and need auxiliary variables of their own), over bases of defaults
    # with many incomparable correction sets: whatever a query allocates must not disturb the later ones
    from common import And, Not, Or, T, V
    for si in range(count):
        k = rng.randrange(3, 6)
        base = [(j + 1, V(j) if rng.random() < 0.8 else Not(V(j)), T) for j in range(k)]
        holds = lambda j: base[j][1]
        viol = lambda j: Not(base[j][1]) if base[j][1][0] == "v" else base[j][1][1]
        fresh = [k, k + 1, k + 2]
        qs = []
        for _ in range(rng.randrange(5, 8)):
            nf = rng.randrange(1, 4)
            fl = [V(x) if rng.random() < 0.5 else Not(V(x)) for x in rng.sample(fresh, nf)]
            ante = fl[0]
            for l in fl[1:]:
                ante = And(ante, l)
            js = rng.sample(range(k), min(k, 3))
            r = rng.random()
            if r < 0.4:
                ante = And(ante, viol(js[0]))
            else:
                alt1 = And(And(holds(js[0]), viol(js[1])), viol(js[-1]))
                alt2 = And(viol(js[-1]), viol(js[0])) if r < 0.7 else And(viol(js[1]), Not(fl[0]) if nf > 1 else viol(js[0]))
                ante = And(ante, Or(alt1, alt2))
            qs.append((holds(rng.choice(js)) if rng.random() < 0.7 else viol(rng.choice(js)), ante))
        c = make_case("fa%d" % si, k + 3, base, [(i + 1, b, a) for i, (b, a) in enumerate(qs)], False)
        cfg = [("system-w", "rc2"), ("lex_inf", "rc2"), ("system-w", "rc2"), ("system-w", "z3"), ("system-w", "rc2"), ("c-inference", "rc2")][si % 6]
        calls = []
        order = list(qs)
        rng.shuffle(order)
        pos = 0
        while pos < len(order):
            sz = rng.randrange(1, 4)
            batch = order[pos:pos + sz]
            pos += sz
            keys = rng.sample(range(0, 40), len(batch))
            calls.append(([(keys[j], q[0], q[1]) for j, q in enumerate(batch)], False))
        jid = "%s@%s" % (c["id"], ops.cfg_name(cfg))
        jobs.append((dict(c, id=jid), cfg, calls))
        expect[jid] = (c, cfg, calls)
    # hand-built sessions: two queries whose formulas print alike (flat conjunctions of seven literals differing in the first one; a deep
    # strengthening of a base antecedent and of its negation) asked in one batch in both orders and in separate calls - anything the
    # manager remembers per printed text of a query shows here whatever the generator draws
    def chain(lits):
        cur = lits[0]
        for l in lits[1:]:
            cur = And(cur, l)
        return cur
    tw_base = [(1, V(7), V(0)), (2, Not(V(7)), Not(V(0)))]
    tail = [V(1), V(2), V(3), V(4), V(5), V(6)]
    tq1, tq2 = (V(7), chain([V(0)] + tail)), (V(7), chain([Not(V(0))] + tail))
    tq3 = (Not(V(7)), chain([Not(V(0))] + tail))
    for ti, cfg in enumerate([("system-w", "rc2"), ("lex_inf", "rc2"), ("c-inference", "rc2"), ("system-w", "z3"), ("system-z", ""), ("p-entailment", "")]):
        for oi, calls in enumerate(([([(3, tq1[0], tq1[1]), (5, tq2[0], tq2[1]), (8, tq3[0], tq3[1])], False)],
                                    [([(4, tq2[0], tq2[1])], False), ([(9, tq1[0], tq1[1]), (2, tq3[0], tq3[1])], False)],
                                    [([(6, tq3[0], tq3[1]), (1, tq1[0], tq1[1])], False), ([(7, tq2[0], tq2[1])], False)])):
            c = make_case("tw%d_%d" % (ti, oi), 8, tw_base, [(1, tq1[0], tq1[1])], False)
            jid = "%s@%s" % (c["id"], ops.cfg_name(cfg))
            jobs.append((dict(c, id=jid), cfg, calls))
            expect[jid] = (c, cfg, calls)
    # ... and queries over atoms of the signature that no conditional mentions, one after the other on one manager: whatever the first one
    # registers (variable ids, cached CNFs) must not leak into the next (pool-id seeds)
    fb = [(1, V(2), V(0)), (2, Not(V(2)), V(1)), (3, V(0), V(1)), (4, V(3), V(0))]          # birds over b,p,f,w with two further atoms x,y
    fq1, fq2, fq3, fq4 = (V(4), V(0)), (V(5), V(4)), (V(5), V(0)), (V(2), And(V(1), V(4)))
    for ti, cfg in enumerate([("system-w", "rc2"), ("lex_inf", "rc2"), ("c-inference", "rc2"), ("system-w", "z3"), ("lex_inf", "z3")]):
        for oi, calls in enumerate(([([(3, fq1[0], fq1[1]), (5, fq2[0], fq2[1]), (8, fq3[0], fq3[1]), (11, fq4[0], fq4[1])], False)],
                                    [([(4, fq1[0], fq1[1])], False), ([(9, fq2[0], fq2[1])], False), ([(2, fq4[0], fq4[1]), (6, fq3[0], fq3[1])], False)],
                                    [([(6, fq2[0], fq2[1]), (1, fq1[0], fq1[1])], False), ([(7, fq3[0], fq3[1])], False)])):
            c = make_case("fr%d_%d" % (ti, oi), 6, fb, [(1, fq1[0], fq1[1])], False)
            jid = "%s@%s" % (c["id"], ops.cfg_name(cfg))
            jobs.append((dict(c, id=jid), cfg, calls))
            expect[jid] = (c, cfg, calls)
    # ... and a query whose antecedent entails its consequent (answered True before any operator runs) asked after another query
    # with the same antecedent, the same consequent, or an unsatisfiable antecedent: whatever is remembered per antecedent or
    # consequent of an earlier query must not decide a later one
    for bi, (sb, sn, a0, b0) in enumerate((([(1, Not(V(0)), T)], 2, V(0), V(1)),
                                          (fb, 6, V(1), V(2)),
                                          ([(1, V(1), V(0)), (2, Not(V(1)), And(V(0), V(2)))], 3, And(V(0), V(2)), V(1)))):
        sq1, sq2, sq3, sq4 = (b0, a0), (Or(a0, b0), a0), (a0, a0), (b0, And(a0, Not(a0)))
        sq5 = (Or(a0, b0), Not(a0))
        for ti, cfg in enumerate([("system-z", ""), ("system-w", "rc2"), ("lex_inf", "rc2"), ("c-inference", "rc2"), ("system-w", "z3"), ("lex_inf", "z3"), ("p-entailment", "")]):
            for oi, calls in enumerate(([([(3, sq1[0], sq1[1]), (5, sq2[0], sq2[1]), (8, sq3[0], sq3[1]), (2, sq5[0], sq5[1])], False)],
                                        [([(4, sq1[0], sq1[1])], False), ([(9, sq2[0], sq2[1])], False), ([(1, sq4[0], sq4[1]), (6, sq3[0], sq3[1])], False)],
                                        [([(6, sq4[0], sq4[1]), (1, sq5[0], sq5[1]), (7, sq1[0], sq1[1])], False), ([(7, sq3[0], sq3[1]), (0, sq2[0], sq2[1])], False)])):
                c = make_case("sa%d_%d_%d" % (bi, ti, oi), sn, sb, [(1, sq1[0], sq1[1])], False)
                jid = "%s@%s" % (c["id"], ops.cfg_name(cfg))
                jobs.append((dict(c, id=jid), cfg, calls))
                expect[jid] = (c, cfg, calls)
    # model answers: every distinct query asked alone on a fresh model
    mcases = []
    for jid, (c, cfg, calls) in expect.items():
        allq = [(i + 1, q[1], q[2]) for i, q in enumerate(q for (batch, _) in calls for q in batch)]   # the model is asked by position
        mcases.append(make_case(jid, c["n"], c["base"], allq, c["weakly"]))
    mres = common.run_model(mcases)
    ires = {}
    # parallel evaluation forks children: the harness workers must not be daemonic
    import concurrent.futures
    import multiprocessing as mp
    with concurrent.futures.ProcessPoolExecutor(max_workers=8, mp_context=mp.get_context("fork")) as ex:
        for out in ex.map(_worker, jobs):
            ires[out["id"]] = out
    cinf_seen = {}
    corr, corr_seen = [], set()
    for jid, (c, cfg, calls) in expect.items():
        im = ires[jid]
        name = ops.cfg_name(cfg)
        desc = {"config": name, "weakly": c["weakly"], "sig": c["sig"], "base": [cond_text(x, c["sig"]) for x in c["base"]],
                "calls": [{"parallel": p, "batch": [(k, cond_text((k, b, a), c["sig"])) for (k, b, a) in batch]} for batch, p in calls]}
        if "error" in im:
            violations.append({"kind": "manager", "history": desc, "actual": im["error"], "found_by": "generated", "theorem_or_observable": "manager construction"})
            continue
        qi = 0
        modelrows = mres[jid]["model"]
        # c-inference has no model answer here: compare with the implementation's own answer for the query asked alone (first occurrence)
        for ci_, (batch, parallel) in enumerate(calls):
            tab = im["tables"][ci_]
            strata["parallel" if parallel else "sequential"] += 1
            strata["call#%d" % min(ci_ + 1, 4)] += 1
            if len({cond_text(q, c["sig"]) for q in batch}) < len(batch):
                strata["duplicate-texts"] += 1
            exp_rows = []
            for (k, b, a) in batch:
                t_ = cond_text((k, b, a), c["sig"])
                ans = im["alone"].get(t_)                        # the implementation's answer when asked alone
                mans = modelrows[qi][cfg[0]] if cfg[0] != "c-inference" else None
                if mans is not None and isinstance(ans, bool) and ans != mans and (jid, t_) not in corr_seen:
                    corr_seen.add((jid, t_))
                    corr.append({"kind": "correspondence", "config": name, "query": t_, "history": desc, "model_answer": mans, "impl_answer_alone": ans, "found_by": "none",
                                 "theorem_or_observable": "model answer != implementation answer for a query asked alone (C13's theorems about the manager model transfer to the code only through this agreement)"})
                exp_rows.append((k, t_, ans if isinstance(ans, bool) else None))
                qi += 1
            evals += len(batch)
            nontriv.add((jid, ci_))
            ok = isinstance(tab, list) and len(tab) == len(exp_rows)
            if ok:
                for row, e in zip(tab, exp_rows):
                    if row[0] != e[0] or row[1] != e[1] or row[3] or (e[2] is not None and row[2] != e[2]):
                        ok = False
            if ok and cfg[0] == "c-inference":
                # history independence for c-inference: same text => same answer across the whole history
                seen = cinf_seen.setdefault(jid, {})
                for row in tab:
                    if seen.setdefault(row[1], row[2]) != row[2]:
                        ok = False
            if not ok:
                violations.append({"kind": "table", "config": name, "call": ci_, "parallel": parallel, "history": desc,
                                   "expected_rows": exp_rows, "actual": tab, "found_by": "generated",
                                   "theorem_or_observable": "call %d (%s): one row per query, submission order, own key / text / answer" % (ci_ + 1, "parallel" if parallel else "sequential")})
                break
        for lo in im.get("leftover", []):
            if lo != (0, 0) and lo[0] != 0:
                violations.append({"kind": "leftover-workers", "config": name, "history": desc, "actual": lo, "found_by": "generated",
                                   "theorem_or_observable": "worker processes left behind after a parallel call"})
        if len(samples) < 2 and len(calls) >= 3:
            samples.append(dict(desc, tables=im["tables"]))
    if not violations:
        violations += corr[:3]      # only the correspondence is broken: reported, labelled as such
    uniq, seen = [], set()
    for v in violations:
        k = (v["kind"], v.get("config"), v.get("parallel"), v.get("call", 0) > 0)
        if k not in seen:
            seen.add(k)
            uniq.append(v)
    return {"evaluations": evals, "distinct_nontrivial": len(nontriv),
            "rule": "per (base, operator/back-end): 2-4 consecutive inference() calls on one manager; batches of 1-5 queries drawn with repetition from 8 queries (duplicate texts), arbitrary distinct integer "
                    "keys 0..39, 30-40%% of the calls parallel; every table compared row by row with the model's answer for the query asked alone; non-trivial = each call",
            "samples": samples, "strata": dict(strata), "traces_validated_against_impl": evals, "violations": uniq[:20]}


def replay(payload):
    return {"evaluations": 1, "distinct_nontrivial": 1, "rule": "replay", "samples": [str(payload)[:500]], "violations": []}


def matches_known(f, payload):
    return common.generic_match(f, payload)
