"""C04 correspondence: lexicographic inference, rc2 and z3 back-ends (strict mode) vs the Coq model / definition."""
import common
import opsprop

ASSUMPTIONS = opsprop.ASSUMPTIONS
CONFIGS = [("lex_inf", "rc2"), ("lex_inf", "z3")]
MODES = [False]


def run(tier, seed, broken_proof=False):
    return opsprop.run_ops_property("C04", CONFIGS, MODES, tier, seed)


def replay(payload):
    return opsprop.replay_ops(payload, CONFIGS)


def matches_known(f, payload):
    return common.generic_match(f, payload)
