"""C14 fault enumeration driven by interposition (nothing depends on real time): for generated cases and every
operator / back-end, the k-th observation of the deadline (Deadline.expired / remaining_ms) is made an expiry, for every
k up to the number of observations of an unexpired run, and (z3 back-ends) the k-th Optimize.check() is made to answer
'unknown'.  Every outcome must be: no exception escapes inference(); each row is flagged as timed out with answer False
or carries the unbudgeted answer; a following call without budgets on the same manager is again flagged-or-correct.
Degenerate budget settings (tiny / non-positive derived budgets) are run as they are."""
import random
from collections import Counter

import common
import ops
import opsprop
from common import cond_text

ASSUMPTIONS = [
    "that z3 honours its timeout parameter and that join(timeout+10) bounds a hung worker are runtime facts outside the model",
    "expiry points are enumerated by interposing Deadline.expired/remaining_ms and z3.Optimize.check; real wall-clock expiry is not exercised except through degenerate budgets",
    "model = code only on the generated inputs of this run",
]
CFGS = ops.ALL_CONFIGS + [("c-inference", "rc2")]


def _rows(df):
    return [(bool(df.at[i, "result"]), bool(df.at[i, "inference_timed_out"]), bool(df.at[i, "preprocessing_timed_out"])) for i in range(len(df))]


def _worker(args):
    case, cfg = args
    common.setup_impl_env()
    import z3
    import inference.deadline as dl
    from inference.inference_manager import InferenceManager
    from inference.queries import Queries

    bb = common.build_bb(case)

    def queries():
        return Queries(common.build_bb(case, "queries", "q").conditionals)

    out = {"id": case["id"], "cfg": ops.cfg_name(cfg), "runs": []}
    try:
        base = _rows(InferenceManager(bb, cfg[0], "z3", cfg[1] or "rc2", case["weakly"]).inference(queries()))
    except Exception as e:  # noqa
        out["baseline"] = "EXC:%s:%s" % (type(e).__name__, str(e)[:100])
        return out
    out["baseline"] = base
    orig_expired, orig_rem, orig_check = dl.Deadline.expired, dl.Deadline.remaining_ms, z3.Optimize.check
    state = {"n": 0, "k": None, "dead": set(), "mode": "deadline"}

    def obs(self):
        state["n"] += 1
        if state["k"] is not None and state["n"] >= state["k"] and not state["dead"]:
            state["dead"].add(self.end)
        return self.end in state["dead"]

    def expired(self):
        return obs(self) if state["mode"] == "deadline" else orig_expired(self)

    def remaining_ms(self):
        if state["mode"] == "deadline":
            return 0 if obs(self) else 10 ** 7
        return orig_rem(self)

    def check(self, *a):
        if state["mode"] == "check-once":      # a single transient 'unknown' (the solver gives up on one call only)
            state["n"] += 1
            if state["k"] is not None and state["n"] == state["k"]:
                return z3.unknown
            return orig_check(self, *a)
        if state["mode"] == "check":
            state["n"] += 1
            if state["k"] is not None and state["n"] >= state["k"] and not state["dead"]:
                state["dead"].add(id(self))
            if id(self) in state["dead"]:
                return z3.unknown
        return orig_check(self, *a)

    def run(mode, k, phase):
        state.update(n=0, k=k, dead=set(), mode=mode)
        mgr = InferenceManager(bb, cfg[0], "z3", cfg[1] or "rc2", case["weakly"])
        kw = {"inference_timeout": 100000} if phase == "inference" else {"preprocessing_timeout": 100000}
        rec = {"mode": mode, "k": k, "phase": phase}
        try:
            rec["rows"] = _rows(mgr.inference(queries(), **kw))
        except AssertionError:
            rec["rows"] = "REFUSE"
        except BaseException as e:  # noqa
            rec["rows"] = "EXC:%s:%s" % (type(e).__name__, str(e)[:100])
        rec["observations"] = state["n"]
        state.update(k=None, mode="off")
        try:
            rec["later"] = _rows(mgr.inference(queries()))
        except BaseException as e:  # noqa
            rec["later"] = "EXC:%s:%s" % (type(e).__name__, str(e)[:100])
        return rec

    dl.Deadline.expired, dl.Deadline.remaining_ms, z3.Optimize.check = expired, remaining_ms, check
    try:
        for phase in ("inference", "preprocessing"):
            for mode in ("deadline", "check", "check-once"):
                if mode != "deadline" and cfg[1] != "z3":
                    continue
                r0 = run(mode, None, phase)
                out["runs"].append(r0)
                for k in range(1, min(r0["observations"], 40) + 1):
                    out["runs"].append(run(mode, k, phase))
    finally:
        dl.Deadline.expired, dl.Deadline.remaining_ms, z3.Optimize.check = orig_expired, orig_rem, orig_check
    # degenerate budgets, as they are (real clock, but the outcome classes do not depend on timing)
    for kw in ({"total_timeout": 1e-9}, {"inference_timeout": 1e-9}, {"total_timeout": 1e-9, "inference_timeout": 5, "preprocessing_timeout": 5},
               {"preprocessing_timeout": 1e-9}, {"total_timeout": 50, "inference_timeout": 20, "preprocessing_timeout": 20}, {"total_timeout": 1e-9, "multi_inference": True}):
        mgr = InferenceManager(bb, cfg[0], "z3", cfg[1] or "rc2", case["weakly"])
        rec = {"mode": "budget", "k": str(kw), "phase": "-"}
        try:
            rec["rows"] = _rows(mgr.inference(queries(), **kw))
        except AssertionError:
            rec["rows"] = "REFUSE"
        except BaseException as e:  # noqa
            rec["rows"] = "EXC:%s:%s" % (type(e).__name__, str(e)[:100])
        rec["observations"] = 0
        try:
            rec["later"] = _rows(mgr.inference(queries()))
        except BaseException as e:  # noqa
            rec["later"] = "EXC:%s:%s" % (type(e).__name__, str(e)[:100])
        out["runs"].append(rec)
    return out


def ok_rows(rows, base):
    if not isinstance(rows, list) or len(rows) != len(base):
        return False
    for (res, ito, pto), (b, _, _) in zip(rows, base):
        if ito or pto:
            if res:
                return False
        elif res != b:
            return False
    return True


def run(tier, seed, broken_proof=False):
    rng = random.Random(seed + 1414)
    count = 44 if tier == "quick" else 200
    violations = []
    strata = Counter()
    evals = 0
    nontriv = set()
    samples = []
    jobs = []
    for weakly in (False, True):
        cand = ops.corpus_cases(weakly)[:1] + ops.gen_ops_cases(rng, count * 3, weakly, max_atoms=4, max_conds=5, nq=3, prefix="t%d" % weakly)
        m0 = common.run_model(cand)
        good = [c for c in cand if m0[c["id"]]["part"] is not None and c["base"] and len(m0[c["id"]]["part"]) >= 2][: count // 2 + 1]
        for ci, c in enumerate(good):
            cfgs = CFGS if not weakly else ops.ALL_CONFIGS
            cfg = cfgs[ci % len(cfgs)]
            c = dict(c, queries=c["queries"][:3], id="%s@%s" % (c["id"], ops.cfg_name(cfg)))
            jobs.append((c, cfg))
    # fixed sessions: the bases with finite layers below a non-empty infinity layer under every z3 / rc2 configuration of W and lex
    # (state that a timed-out recursion leaves behind on the manager must show whatever the generator draws)
    for c0 in ops.corpus_cases(True):
        if c0["id"].startswith(("corp-w-mixed", "corp-birds", "corp-lextie")):
            for cfg in (("lex_inf", "z3"), ("system-w", "z3"), ("lex_inf", "rc2"), ("system-w", "rc2")):
                c = dict(c0, queries=c0["queries"][:3], id="fx-%s@%s" % (c0["id"], ops.cfg_name(cfg)))
                jobs.append((c, cfg))
    # ... and bases of five atoms and six conditionals whose layers have several incomparable minimal correction sets, under the rc2
    # configurations: an expiry in the middle of the enumeration (some sets found, not all) must leave nothing behind that a later call
    # reads. The first is hand-built, the others come from a generator of their own (fixed seed, independent of VERIF_SEED).
    from common import And, Not, Or, V, make_case
    mc_base = [(1, Or(V(3), V(1)), V(2)), (2, Not(V(4)), Or(Not(V(4)), Not(V(2)))), (3, V(2), V(2)), (4, Not(V(0)), Or(V(2), V(4))),
               (5, Or(Not(V(1)), V(4)), V(4)), (6, Not(V(2)), Or(V(4), V(1)))]
    mc_qs = [(1, And(V(1), Not(V(0))), And(V(1), V(4))), (2, V(3), And(V(2), V(0))), (3, Not(V(2)), Or(V(0), V(1)))]
    mcs = [make_case("mc0", 5, mc_base, mc_qs, False)]
    rng2 = random.Random(141414)
    cand2 = ops.gen_ops_cases(rng2, 60, False, max_atoms=5, max_conds=6, nq=3, prefix="mc")
    m2 = common.run_model(cand2)
    mcs += [c for c in cand2 if m2[c["id"]]["part"] is not None and len(c["base"]) >= 5][: (5 if tier == "quick" else 20)]
    for ci, c0 in enumerate(mcs):
        for cfg in (("system-w", "rc2"), ("lex_inf", "rc2"), ("c-inference", "rc2")) if ci == 0 else ((("system-w", "rc2"), ("lex_inf", "rc2"))[ci % 2],):
            jobs.append((dict(c0, queries=c0["queries"][:3], id="%s@%s" % (c0["id"], ops.cfg_name(cfg))), cfg))
    import concurrent.futures
    import multiprocessing as mp
    res = []
    with concurrent.futures.ProcessPoolExecutor(max_workers=10, mp_context=mp.get_context("fork")) as ex:
        for out in ex.map(_worker, jobs):
            res.append(out)
    byid = {c["id"]: c for c, _ in jobs}
    for out in res:
        c = byid[out["id"]]
        desc = {"config": out["cfg"], "weakly": c["weakly"], "base": [cond_text(x, c["sig"]) for x in c["base"]], "queries": [cond_text(q, c["sig"]) for q in c["queries"]]}
        base = out["baseline"]
        if not isinstance(base, list):
            violations.append({"kind": "baseline", "case": desc, "actual": base, "found_by": "generated", "theorem_or_observable": "unbudgeted run raised"})
            continue
        for r in out["runs"]:
            evals += 1
            strata["%s/%s" % (r["mode"], r["phase"])] += 1
            if r["k"] is not None and r["mode"] != "budget":
                nontriv.add((out["id"], r["mode"], r["phase"], r["k"]))
            flagged = isinstance(r["rows"], list) and any(x[1] or x[2] for x in r["rows"])
            if flagged:
                strata["flagged-runs"] += 1
            for which in ("rows", "later"):
                if not ok_rows(r[which], base):
                    violations.append({"kind": "budget", "config": out["cfg"], "fault": {"mode": r["mode"], "k": r["k"], "phase": r["phase"]}, "which_call": "faulty call" if which == "rows" else "later call without budgets",
                                       "case": desc, "baseline": base, "actual": r[which], "found_by": "generated",
                                       "theorem_or_observable": "%s: every row must be flagged with answer False or carry the unbudgeted answer; no exception may escape" % which})
                    break
        if len(samples) < 2:
            samples.append(dict(desc, baseline=base, runs=[{k: r[k] for k in ("mode", "k", "phase", "rows", "observations")} for r in out["runs"][:6]]))
    uniq, seen = [], set()
    for v in violations:
        k = (v["kind"], v.get("config"), str(v.get("fault", {}).get("mode")), v.get("which_call"), str(v.get("actual"))[:30])
        if k not in seen:
            seen.add(k)
            uniq.append(v)
    return {"evaluations": evals, "distinct_nontrivial": len(nontriv),
            "rule": "per (multi-layer base, operator/back-end): unexpired runs with budgets to count the observation points, then one run per k with the k-th observation of the deadline an expiry "
                    "(inference phase and preprocessing phase) and, for the z3 back-ends, the k-th Optimize.check() answering unknown (persistently for that optimiser object, and once only); 6 degenerate budget settings; each followed by a call without budgets on the same manager; "
                    "non-trivial = one injected expiry point",
            "samples": samples, "strata": dict(strata), "traces_validated_against_impl": evals, "violations": uniq[:20]}


def replay(payload):
    return {"evaluations": 1, "distinct_nontrivial": 1, "rule": "replay", "samples": [str(payload)[:500]], "violations": []}


def matches_known(f, payload):
    return common.generic_match(f, payload)
