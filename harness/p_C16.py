"""C16 correspondence: PreOCF.init_system_z objects (strict / extended, with and without facts) driven through random
operation sequences (lazy rank, forced rank, compute all, formula rank, acceptance); after every step the returned
value and the whole rank cache are compared with the Coq model; acceptance verdicts are also compared with the
System Z operator of the working tree on the same queries; unsatisfiable fact combinations must be refused."""
import itertools
import random
from collections import Counter

import common
import ops
import opsprop
from common import cond_text, gen_formula, gen_lit, to_cl, to_prefix

ASSUMPTIONS = [
    "model = code is checked only on the generated inputs of this run",
    "z3 (through pysmt) decides world membership in the implementation; the model evaluates formulas directly",
]


def bits(w):
    return "".join("1" if b else "0" for b in w)


def _worker(case):
    common.setup_impl_env()
    from inference.conditional import Conditional
    from inference.inference_manager import InferenceManager
    from inference.preocf import PreOCF
    from inference.queries import Queries

    sig = case["sig"]
    out = {"id": case["id"], "steps": []}
    bb = common.build_bb({"sig": sig, "base": case["base"]})
    keys_before = list(bb.conditionals.keys())
    # history on ONE belief-base object: earlier ranking objects with other fact lists (outcome irrelevant) must leave the base as it was
    for pf in case.get("prior_facts", []):
        try:
            PreOCF.init_system_z(bb, facts=[common.to_pysmt(f, sig) for f in pf] or None, extended=case["ext"])
        except Exception:  # noqa
            pass
    out["base_keys_unchanged"] = list(bb.conditionals.keys()) == keys_before
    try:
        facts = [common.to_pysmt(f, sig) for f in case["facts"]] or None
        ocf = PreOCF.init_system_z(bb, facts=facts, extended=case["ext"])
    except ValueError as e:
        out["construct"] = "REFUSE"
        out["diag_in_message"] = "combination_consistent" in str(e)
        return out
    except Exception as e:  # noqa
        out["construct"] = "EXC:%s:%s" % (type(e).__name__, str(e)[:100])
        return out
    part = ocf._z_partition
    if part is False:
        out["construct"] = "NOPART"
        return out
    inv = {}
    for k, c in bb.conditionals.items():
        inv[id(c)] = k
    out["construct"] = "OK"
    try:
        d = ocf.metadata.get("consistency_diagnostics") or {}
        out["diag"] = [d.get("facts_consistent"), d.get("belief_base_consistent"), d.get("belief_base_weakly_consistent"),
                       d.get("combination_consistent"), d.get("combination_infinity_increase")]
    except Exception as e:  # noqa
        out["diag"] = "EXC:%s" % type(e).__name__
    out["partition_sizes"] = [len(l) for l in part]
    worlds = list(ocf.ranks.keys())
    for op in case["ops"]:
        try:
            if op[0] == "PR":
                v = ocf.rank_world(op[1])
            elif op[0] == "PF":
                v = ocf.rank_world(op[1], force_calculation=True)
            elif op[0] == "PA":
                v = list(ocf.compute_all_ranks().values())
            elif op[0] == "PQ":
                v = ocf.formula_rank(common.to_pysmt(op[1], sig))
            else:
                v = bool(ocf.conditional_acceptance(Conditional(common.to_pysmt(op[1], sig), common.to_pysmt(op[2], sig), "q")))
        except Exception as e:  # noqa
            v = "EXC:%s:%s" % (type(e).__name__, str(e)[:100])
        out["steps"].append((v, [ocf.ranks[w] for w in worlds]))
    # acceptance vs the System Z operator (same mode) on the acceptance queries, when no facts are involved
    if not case["facts"]:
        qs = [(i + 1, op[1], op[2]) for i, op in enumerate(case["ops"]) if op[0] == "PC"]
        if qs:
            out["operator"] = common.impl_infer({"sig": sig, "base": case["base"], "queries": qs, "weakly": bool(case["ext"])}, "system-z", "", weakly=bool(case["ext"]))
    return out


def run(tier, seed, broken_proof=False):
    rng = random.Random(seed + 1616)
    count = 250 if tier == "quick" else 1500
    cases = []
    # candidate bases per mode, steered to (weakly) consistent ones on the model side; 12 % inconsistent ones are kept
    pool_ = {}
    for mode in (False, True):
        cand = ops.gen_ops_cases(rng, count * 3, mode, max_atoms=4, max_conds=5, nq=0, prefix="zb%d" % mode)
        cand = [c for c in cand if c["base"]]
        m0 = common.run_model(cand)
        good = [c for c in cand if m0[c["id"]]["part"] is not None]
        bad = [c for c in cand if m0[c["id"]]["part"] is None]
        pool_[mode] = good + bad[: len(good) // 8]
        rng.shuffle(pool_[mode])
    i = 0
    while len(cases) < count:
        i += 1
        ext = rng.choice([None, False, True])
        if not pool_[bool(ext)]:
            break
        b = pool_[bool(ext)].pop()
        n = b["n"]
        if rng.random() < 0.4:
            ks = rng.sample(range(0, 3 * len(b["base"]) + 4), len(b["base"]))
            b = dict(b, base=[(ks[j], x, y) for j, (_, x, y) in enumerate(b["base"])])
        nf = rng.choice([0, 0, 1, 2])
        facts = [gen_formula(rng, n, 1, 0.05) if rng.random() < 0.5 else gen_lit(rng, n) for _ in range(nf)]
        c = {"id": "z%d" % i, "n": n, "sig": b["sig"], "base": b["base"], "facts": facts, "ext": ext, "ops": []}
        if rng.random() < 0.4:
            c["prior_facts"] = [[gen_lit(rng, n) for _ in range(rng.randrange(1, 3))] for _ in range(rng.randrange(1, 3))]
        worlds = [bits(w) for w in itertools.product([False, True], repeat=n)]
        for _ in range(rng.randrange(4, 9)):
            r = rng.random()
            if r < 0.35:
                c["ops"].append(("PR", rng.choice(worlds)))
            elif r < 0.45:
                c["ops"].append(("PF", rng.choice(worlds)))
            elif r < 0.52:
                c["ops"].append(("PA",))
            elif r < 0.75:
                c["ops"].append(("PQ", gen_formula(rng, n, 2, 0.08)))
            else:
                k0 = rng.choice(b["base"])
                if rng.random() < 0.4:
                    c["ops"].append(("PC", k0[1], k0[2]))
                else:
                    c["ops"].append(("PC", gen_formula(rng, n, 1, 0.04), gen_formula(rng, n, 1, 0.04)))
        cases.append(c)
    lines = []
    for c in cases:
        lines.append("Z %s %d %s" % (c["id"], c["n"], "x" if c["ext"] is None else ("1" if c["ext"] else "0")))
        for (k, b, a) in c["base"]:
            lines.append("D %d %s ; %s" % (k, to_prefix(b), to_prefix(a)))
        for f in c["facts"]:
            lines.append("F " + to_prefix(f))
        for op in c["ops"]:
            if op[0] in ("PR", "PF"):
                lines.append("%s %s" % (op[0], op[1]))
            elif op[0] == "PA":
                lines.append("PA")
            elif op[0] == "PQ":
                lines.append("PQ " + to_prefix(op[1]))
            else:
                lines.append("PC %s ; %s" % (to_prefix(op[1]), to_prefix(op[2])))
        lines.append("E")
    # the diagnostics the object stores (and would carry in its refusal) vs the model's, for the mode the object works in
    dcs = []
    for c in cases:
        ext_eff = c["ext"] if c["ext"] is not None else bool(c["facts"])
        dcs.append({"id": c["id"], "n": c["n"], "base": c["base"], "facts": c["facts"], "extended": bool(ext_eff), "uses_facts": bool(c["facts"])})
    dres = common.run_model_diag(dcs)
    mres = {}
    for line in common._run_bin("\n".join(lines) + "\n"):
        parts = line.split("|")
        if len(parts) == 2:
            mres[parts[0]] = {"part": parts[1], "steps": []}
        else:
            cid, i, val, cache = parts
            mres[cid]["steps"].append((val, [None if x == "-" else int(x) for x in cache.split(",")]))
    ires = {}
    for out in ops.pool().imap_unordered(_worker, cases, chunksize=2):
        ires[out["id"]] = out
    violations = []
    strata = Counter()
    evals = 0
    nontriv = set()
    samples = []
    for c in cases:
        m = mres[c["id"]]
        im = ires[c["id"]]
        mode = "ext=%s facts=%d" % (c["ext"], len(c["facts"]))
        strata[mode] += 1
        desc = {"sig": c["sig"], "base": [cond_text(x, c["sig"]) for x in c["base"]], "facts": [to_cl(f, c["sig"]) for f in c["facts"]], "extended": c["ext"],
                "earlier_objects_on_the_same_base_with_facts": [[to_cl(f, c["sig"]) for f in pf] for pf in c.get("prior_facts", [])]}
        if c.get("prior_facts"):
            strata["history-on-one-base-object"] += 1
        if m["part"] == "REFUSE":
            strata["refused"] += 1
            evals += 1
            # without facts the object is built even for an inconsistent base (out of the property's scope); with facts it must refuse
            if c["facts"] and im["construct"] != "REFUSE":
                violations.append({"kind": "facts-refusal", "case": desc, "expected": "ValueError carrying diagnostics", "actual": im["construct"], "found_by": "generated",
                                   "theorem_or_observable": "unsatisfiable combination of base and facts must be refused"})
            if c["facts"] and im["construct"] == "REFUSE" and not im.get("diag_in_message"):
                violations.append({"kind": "facts-refusal-message", "case": desc, "expected": "diagnostics in the error", "actual": "missing", "found_by": "generated",
                                   "theorem_or_observable": "refusal must carry the diagnostics"})
            continue
        if im["construct"] != "OK":
            violations.append({"kind": "construct", "case": desc, "expected": "object", "actual": im["construct"], "found_by": "generated",
                               "theorem_or_observable": "ranking object could not be built for a (weakly) consistent base"})
            continue
        import re
        msizes = [len([x for x in l.split(",") if x]) for l in re.findall(r"\[([0-9,]*)\]", m["part"])]
        if msizes != im["partition_sizes"]:
            violations.append({"kind": "partition", "case": desc, "expected": msizes, "actual": im["partition_sizes"], "found_by": "generated",
                               "theorem_or_observable": "partition of the (augmented) base"})
        acc_i = 0
        if "diag" in im and dres.get(c["id"]) is not None and im["diag"] != dres[c["id"]]:
            violations.append({"kind": "stored-diagnostics", "case": desc, "expected": dres[c["id"]], "actual": im["diag"], "found_by": "generated",
                               "theorem_or_observable": "diagnostics stored in the ranking object [facts_consistent, belief_base_consistent, belief_base_weakly_consistent, combination_consistent, combination_infinity_increase]"})
        for si, op in enumerate(c["ops"]):
            mv, mc = m["steps"][si]
            iv, ic = im["steps"][si]
            evals += 1
            if op[0] in ("PR", "PF"):
                exp = int(mv)
            elif op[0] == "PA":
                exp = [int(x) for x in mv.split(",")]
            elif op[0] == "PQ":
                exp = None if mv == "-" else int(mv)
            else:
                exp = mv == "1"
            strata["op=" + op[0]] += 1
            if len(set(x for x in mc if x is not None)) > 1:
                nontriv.add((c["id"], si))
            if iv != exp or ic != mc:
                violations.append({"kind": "object-step", "case": desc, "step": si, "op": [op[0]] + [to_cl(x, c["sig"]) if isinstance(x, tuple) else x for x in op[1:]],
                                   "expected": {"value": exp, "cache": mc}, "actual": {"value": iv, "cache": ic}, "found_by": "generated",
                                   "theorem_or_observable": "value / rank cache after the operation vs Z-ranks"})
                break
            if op[0] == "PC" and "operator" in im and isinstance(im["operator"], list):
                opans = im["operator"][acc_i]
                acc_i += 1
                # the verdicts must coincide when the antecedent has a feasible model (mv is the model's verdict)
                top = len(msizes) if (c["ext"] or (c["ext"] is None and c["facts"])) else None
                feasible_a = any(r is not None for r in [None]) or True
                ant_rank = None
                # feasibility of A: some world satisfying A has a rank below the top rank
                ws = list(itertools.product([False, True], repeat=c["n"]))
                full = m["steps"][-1][1]
                known = [full[j] for j, w in enumerate(ws) if common.ev(op[2], w) and full[j] is not None]
                if known and (top is None or min(known) < top) and opans != exp:
                    violations.append({"kind": "accept-vs-operator", "case": desc, "query": cond_text((0, op[1], op[2]), c["sig"]), "expected": opans, "actual": exp,
                                       "found_by": "generated", "theorem_or_observable": "acceptance by the ranking object vs the System Z operator"})
            elif op[0] == "PC":
                acc_i += 1 if "operator" in im and isinstance(im.get("operator"), list) else 0
        if len(samples) < 2 and len(c["ops"]) >= 5 and not c["facts"]:
            samples.append(dict(desc, ops=[[op[0]] + [to_cl(x, c["sig"]) if isinstance(x, tuple) else x for x in op[1:]] for op in c["ops"]],
                                values=[s[0] for s in im["steps"]], final_cache=im["steps"][-1][1]))
    return {"evaluations": evals, "distinct_nontrivial": len(nontriv),
            "rule": "generated bases (<=4 atoms, <=5 conditionals) in strict / extended / default mode, 0-2 random facts; 4-8 operations per object drawn from lazy rank, forced rank, "
                    "compute-all, formula rank, acceptance (base conditionals and random queries); after each operation value and whole cache are compared; non-trivial = step whose cache holds at least two different ranks",
            "samples": samples, "strata": dict(strata), "traces_validated_against_impl": evals, "violations": violations[:20]}


def replay(payload):
    return {"evaluations": 1, "distinct_nontrivial": 1, "rule": "replay", "samples": [str(payload)[:400]], "violations": []}


def matches_known(f, payload):
    return common.generic_match(f, payload)
